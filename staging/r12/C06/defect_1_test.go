package dns

import (
	"strings"
	"testing"
)

// RFC 1035 5.1: parentheses group data that crosses a line boundary; a line
// break inside them is no more than white space between two items. The lexer
// drops the newline altogether, so two items that are separated by the line
// break alone are glued into one token.
func TestSeededDefect1NewlineInParentheses(t *testing.T) {
	parse := func(zone string) ([]string, error) {
		var out []string
		zp := NewZoneParser(strings.NewReader(zone), "", "")
		for rr, ok := zp.Next(); ok; rr, ok = zp.Next() {
			out = append(out, rr.String())
		}
		return out, zp.Err()
	}

	for _, tc := range []struct{ oneLine, broken string }{
		{"example. 300 IN MX 10 mx.example.\n", "example. 300 IN MX (10\nmx.example.)\n"},
		{"example. 300 IN TXT a b\n", "example. 300 IN TXT (a\nb)\n"},
		{"example. 300 IN A 192.0.2.1\n", "example. 300 (IN\nA 192.0.2.1)\n"},
		{"example. 300 IN SOA ns. mbox. 1 2 3 4 5\n", "example. 300 IN SOA ns. mbox. (1\n2\n3\n4\n5)\n"},
	} {
		want, err := parse(tc.oneLine)
		if err != nil {
			t.Fatalf("%q: %v", tc.oneLine, err)
		}
		got, err := parse(tc.broken)
		if err != nil {
			t.Errorf("%q: parse error %v, want the records of %q", tc.broken, err, tc.oneLine)
			continue
		}
		if strings.Join(got, "\n") != strings.Join(want, "\n") {
			t.Errorf("%q: got %q, want %q", tc.broken, got, want)
		}
	}
}
