package dns

import (
	"crypto"
	"testing"
	"time"
)

// Verification does not depend on the letter case of the owner name, also not
// when the records of one RRset spell the owner differently (records that were
// collected from different messages, or from a zone file that is not
// consistent in its spelling).
func TestSeededC10m2(t *testing.T) {
	key := &DNSKEY{
		Hdr:       RR_Header{Name: "example.", Rrtype: TypeDNSKEY, Class: ClassINET, Ttl: 3600},
		Flags:     ZONE,
		Protocol:  3,
		Algorithm: ED25519,
	}
	priv, err := key.Generate(256)
	if err != nil {
		t.Fatal(err)
	}
	mk := func(owner string, ttl uint32, last byte) RR {
		return &A{Hdr: RR_Header{Name: owner, Rrtype: TypeA, Class: ClassINET, Ttl: ttl}, A: []byte{192, 0, 2, last}}
	}
	signed := []RR{mk("www.example.", 300, 1), mk("www.example.", 300, 2), mk("www.example.", 300, 3)}
	now := time.Now()
	sig := &RRSIG{
		Inception:  uint32(now.Add(-time.Hour).Unix()),
		Expiration: uint32(now.Add(time.Hour).Unix()),
		KeyTag:     key.KeyTag(),
		SignerName: "example.",
		Algorithm:  ED25519,
	}
	if err := sig.Sign(priv.(crypto.Signer), signed); err != nil {
		t.Fatal(err)
	}
	if err := sig.Verify(key, signed); err != nil {
		t.Fatalf("as signed: %v", err)
	}

	for _, rrset := range [][]RR{
		{mk("WWW.EXAMPLE.", 300, 1), mk("WWW.EXAMPLE.", 300, 2), mk("WWW.EXAMPLE.", 300, 3)},
		{mk("www.example.", 300, 1), mk("WWW.example.", 300, 2), mk("www.example.", 300, 3)},
		{mk("wWw.Example.", 17, 3), mk("www.example.", 300, 1), mk("www.eXample.", 299, 2)},
	} {
		if !IsRRset(rrset) {
			t.Errorf("IsRRset(%v) = false", rrset)
		}
		if err := sig.Verify(key, rrset); err != nil {
			t.Errorf("Verify(%v): %v", rrset, err)
		}
	}

	// and Sign over a set that is spelled in two ways gives a signature that verifies
	mixed := []RR{mk("www.example.", 300, 1), mk("Www.example.", 300, 2)}
	sig2 := &RRSIG{Inception: sig.Inception, Expiration: sig.Expiration, KeyTag: sig.KeyTag, SignerName: "example.", Algorithm: ED25519}
	if err := sig2.Sign(priv.(crypto.Signer), mixed); err != nil {
		t.Fatal(err)
	}
	if err := sig2.Verify(key, mixed); err != nil {
		t.Errorf("Sign then Verify of %v: %v", mixed, err)
	}
}
