package dns

import (
	"bytes"
	"crypto"
	"testing"
	"time"
)

// Unchanged tree: a name in presentation form may spell an upper-case letter as
// a decimal escape (\065 is 'A'). CanonicalName only folds the letters it sees
// in the string, so the octet the escape stands for goes into the "canonical"
// form in upper case. Sign then signs something that is not the RFC 4034 6.2
// form, and the signature stops verifying as soon as the same name is spelled
// without the escape - which is what a trip over the wire does.
func TestSeededC10defect1(t *testing.T) {
	key := &DNSKEY{
		Hdr:       RR_Header{Name: "example.", Rrtype: TypeDNSKEY, Class: ClassINET, Ttl: 3600},
		Flags:     ZONE,
		Protocol:  3,
		Algorithm: ED25519,
	}
	priv, err := key.Generate(256)
	if err != nil {
		t.Fatal(err)
	}
	now := time.Now()
	newSig := func() *RRSIG {
		return &RRSIG{
			Hdr:        RR_Header{Ttl: 300},
			Inception:  uint32(now.Add(-time.Hour).Unix()),
			Expiration: uint32(now.Add(time.Hour).Unix()),
			KeyTag:     key.KeyTag(),
			SignerName: "example.",
			Algorithm:  ED25519,
		}
	}

	for _, text := range []string{
		`\065bc.example. 300 IN A 192.0.2.1`,       // owner
		`abc.example. 300 IN NS \078s.example.net.`, // name in the RDATA of a 6.2 type
	} {
		rr, err := NewRR(text)
		if err != nil {
			t.Fatal(err)
		}
		sig := newSig()
		if err := sig.Sign(priv.(crypto.Signer), []RR{rr}); err != nil {
			t.Fatal(err)
		}
		if err := sig.Verify(key, []RR{rr}); err != nil {
			t.Fatalf("%s: as signed: %v", text, err)
		}

		// the canonical form has no upper-case letter in the owner and the NS target
		data, err := rawSignatureData([]RR{rr}, sig)
		if err != nil {
			t.Fatal(err)
		}
		if bytes.Contains(data, []byte("\x03Abc\x07example\x00")) || bytes.Contains(data, []byte("\x02Ns\x07example\x03net\x00")) {
			t.Errorf("%s: canonical form has an upper-case letter in a name: %q", text, data)
		}

		// over the wire and back
		m := new(Msg)
		m.SetQuestion("abc.example.", rr.Header().Rrtype)
		m.Response = true
		m.Answer = []RR{rr, sig}
		buf, err := m.Pack()
		if err != nil {
			t.Fatal(err)
		}
		m2 := new(Msg)
		if err := m2.Unpack(buf); err != nil {
			t.Fatal(err)
		}
		if err := m2.Answer[1].(*RRSIG).Verify(key, m2.Answer[:1]); err != nil {
			t.Errorf("%s: after Pack and Unpack (%v): %v", text, m2.Answer[0], err)
		}
	}
}
