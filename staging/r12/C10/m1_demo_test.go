package dns

import (
	"crypto"
	"testing"
	"time"
)

// The algorithm of the DNSKEY must be the algorithm of the RRSIG. A key that
// was published for RSASHA1 (5) must not verify an RRSIG that says
// RSASHA1-NSEC3-SHA1 (7), and the other way round, even when the key tag is
// the same (the tag is a plain sum, so "algorithm - 2" is compensated by
// "flags + 2").
func TestSeededC10m1(t *testing.T) {
	for _, c := range []struct{ sigAlg, keyAlg uint8 }{
		{RSASHA1NSEC3SHA1, RSASHA1},
		{RSASHA1, RSASHA1NSEC3SHA1},
	} {
		key := &DNSKEY{
			Hdr:       RR_Header{Name: "example.", Rrtype: TypeDNSKEY, Class: ClassINET, Ttl: 3600},
			Flags:     ZONE | 4, // room to move the flags down and up by 2
			Protocol:  3,
			Algorithm: c.sigAlg,
		}
		priv, err := key.Generate(1024)
		if err != nil {
			t.Fatal(err)
		}
		rrset := []RR{
			&A{Hdr: RR_Header{Name: "www.example.", Rrtype: TypeA, Class: ClassINET, Ttl: 300}, A: []byte{192, 0, 2, 1}},
			&A{Hdr: RR_Header{Name: "www.example.", Rrtype: TypeA, Class: ClassINET, Ttl: 300}, A: []byte{192, 0, 2, 2}},
		}
		now := time.Now()
		sig := &RRSIG{
			Inception:  uint32(now.Add(-time.Hour).Unix()),
			Expiration: uint32(now.Add(time.Hour).Unix()),
			KeyTag:     key.KeyTag(),
			SignerName: "example.",
			Algorithm:  c.sigAlg,
		}
		if err := sig.Sign(priv.(crypto.Signer), rrset); err != nil {
			t.Fatal(err)
		}
		if err := sig.Verify(key, rrset); err != nil {
			t.Fatalf("alg %d: own signature does not verify: %v", c.sigAlg, err)
		}

		// The same public key, published for the sibling algorithm; the flags
		// are moved by the same amount the other way, so the key tag stays.
		other := key.copy().(*DNSKEY)
		other.Algorithm = c.keyAlg
		other.Flags = uint16(int(key.Flags) + int(c.sigAlg) - int(c.keyAlg))
		if other.Flags&ZONE == 0 || other.KeyTag() != key.KeyTag() {
			t.Fatalf("test set-up: flags %d, tag %d, want tag %d", other.Flags, other.KeyTag(), key.KeyTag())
		}
		if err := sig.Verify(other, rrset); err == nil {
			t.Errorf("RRSIG with algorithm %d verified with a DNSKEY of algorithm %d", c.sigAlg, c.keyAlg)
		}
	}
}
