package dns

import (
	"crypto/ed25519"
	"encoding/binary"
	"testing"
	"time"
)

// Unchanged tree: 0 is a key tag like any other (one key in 65536 has it), but
// signAsIs takes KeyTag == 0 for "not filled in" and returns ErrKey: with such a
// key Sign cannot make a signature at all, while Verify has no such objection.
func TestSeededC10defect2(t *testing.T) {
	seed := make([]byte, 32)
	binary.BigEndian.PutUint32(seed[28:], 41917) // found by search: this key has tag 0
	priv := ed25519.NewKeyFromSeed(seed)
	key := &DNSKEY{
		Hdr:       RR_Header{Name: "example.", Rrtype: TypeDNSKEY, Class: ClassINET, Ttl: 3600},
		Flags:     ZONE,
		Protocol:  3,
		Algorithm: ED25519,
	}
	key.setPublicKeyED25519(priv.Public().(ed25519.PublicKey))
	if key.KeyTag() != 0 {
		t.Fatalf("test set-up: key tag %d", key.KeyTag())
	}
	rrset := []RR{&A{Hdr: RR_Header{Name: "www.example.", Rrtype: TypeA, Class: ClassINET, Ttl: 300}, A: []byte{192, 0, 2, 1}}}
	now := time.Now()
	sig := &RRSIG{
		Inception:  uint32(now.Add(-time.Hour).Unix()),
		Expiration: uint32(now.Add(time.Hour).Unix()),
		KeyTag:     key.KeyTag(),
		SignerName: "example.",
		Algorithm:  ED25519,
	}
	if err := sig.Sign(priv, rrset); err != nil {
		t.Fatalf("Sign with a key whose tag is 0: %v", err)
	}
	if err := sig.Verify(key, rrset); err != nil {
		t.Fatalf("Verify: %v", err)
	}
}
