package dns

import (
	"crypto/ed25519"
	"testing"
	"time"
)

// The canonical form of RFC 4034 6.2 lower-cases the domain names in the RDATA
// of the types listed there (as corrected by RFC 6840 5.1) and of no other
// type (RFC 3597 section 7): the TargetName of SVCB and HTTPS is signed as it
// is. The signature below is made the way any other signer (BIND, Knot,
// ldns) makes it, over the record with the target in the case of the zone file.
func TestSeededC10m3(t *testing.T) {
	key := &DNSKEY{
		Hdr:       RR_Header{Name: "example.", Rrtype: TypeDNSKEY, Class: ClassINET, Ttl: 3600},
		Flags:     ZONE,
		Protocol:  3,
		Algorithm: ED25519,
	}
	pk, err := key.Generate(256)
	if err != nil {
		t.Fatal(err)
	}
	priv := pk.(ed25519.PrivateKey)
	now := time.Now()

	for _, text := range []string{
		"www.example. 300 IN HTTPS 1 Svc.Example.NET. alpn=h2",
		"_dns.example. 300 IN SVCB 2 Pool.Example.NET. port=853",
	} {
		rr, err := NewRR(text)
		if err != nil {
			t.Fatal(err)
		}
		h := rr.Header()
		sig := &RRSIG{
			Hdr:         RR_Header{Name: h.Name, Rrtype: TypeRRSIG, Class: ClassINET, Ttl: 300},
			TypeCovered: h.Rrtype,
			Algorithm:   ED25519,
			Labels:      uint8(CountLabel(h.Name)),
			OrigTtl:     300,
			Inception:   uint32(now.Add(-time.Hour).Unix()),
			Expiration:  uint32(now.Add(time.Hour).Unix()),
			KeyTag:      key.KeyTag(),
			SignerName:  "example.",
		}

		// RRSIG RDATA without the signature, then the one RR of the set: the
		// owner is lower case already, TTL = original TTL, RDATA as it is.
		data := make([]byte, 512)
		n, err := packSigWire(&rrsigWireFmt{sig.TypeCovered, sig.Algorithm, sig.Labels, sig.OrigTtl,
			sig.Expiration, sig.Inception, sig.KeyTag, sig.SignerName}, data)
		if err != nil {
			t.Fatal(err)
		}
		n, err = PackRR(rr, data, n, nil, false)
		if err != nil {
			t.Fatal(err)
		}
		sig.Signature = toBase64(ed25519.Sign(priv, data[:n]))

		if err := sig.Verify(key, []RR{rr}); err != nil {
			t.Errorf("%s: signature over the record as it stands does not verify: %v", text, err)
		}

		// The same record with the target in lower case is another RDATA, the
		// signature does not cover it.
		lower, _ := NewRR(text)
		switch x := lower.(type) {
		case *HTTPS:
			x.Target = CanonicalName(x.Target)
		case *SVCB:
			x.Target = CanonicalName(x.Target)
		}
		if err := sig.Verify(key, []RR{lower}); err == nil {
			t.Errorf("%s: signature verifies for a record with another target (%v)", text, lower)
		}

		// And the other way round: a signature made by Sign over the lower case
		// record says nothing about the record with the other RDATA.
		sig2 := &RRSIG{Inception: sig.Inception, Expiration: sig.Expiration, KeyTag: sig.KeyTag, SignerName: "example.", Algorithm: ED25519}
		if err := sig2.Sign(priv, []RR{lower}); err != nil {
			t.Fatal(err)
		}
		if err := sig2.Verify(key, []RR{lower}); err != nil {
			t.Errorf("%s: Sign then Verify: %v", text, err)
		}
		if err := sig2.Verify(key, []RR{rr}); err == nil {
			t.Errorf("%s: signature over %v verifies for %v", text, lower, rr)
		}
	}
}
