package dns

import (
	"fmt"
	"net"
	"strings"
	"testing"
)

// Property: under the message's compression setting Len() is at least the number of
// octets Pack() produces, and exactly that number for a message of names, integers
// and addresses without escapes.
//
// The message holds a few records whose owner names have very many (short) labels.
// Every label of every name is a place a later name can point at, for Pack as well
// as for the compression Len simulates. Well inside the first 16384 octets a new
// name is introduced and then used again by further records; Len counts two octets
// for each of the repeats, so Pack has to write a pointer for each of them, too.
func TestSeededC08m3(t *testing.T) {
	m := new(Msg)
	m.Compress = true
	m.SetQuestion("example.org.", TypeNS)

	// 24 owner names of 100 labels each, no two of them sharing a suffix
	for i := 0; i < 24; i++ {
		owner := strings.Repeat("a.", 99) + fmt.Sprintf("n%d.", i)
		m.Answer = append(m.Answer, &NS{
			Hdr: RR_Header{Name: owner, Rrtype: TypeNS, Class: ClassINET, Ttl: 3600},
			Ns:  ".",
		})
	}
	// a new name, and the same name again
	for i := 0; i < 4; i++ {
		m.Extra = append(m.Extra, &A{
			Hdr: RR_Header{Name: "fresh.example.net.", Rrtype: TypeA, Class: ClassINET, Ttl: 3600},
			A:   net.IPv4(192, 0, 2, byte(i)),
		})
	}

	predicted := m.Len()
	buf, err := m.Pack()
	if err != nil {
		t.Fatalf("Pack: %v", err)
	}
	if len(buf) >= maxCompressionOffset {
		t.Fatalf("test message is meant to stay below %d octets, has %d", maxCompressionOffset, len(buf))
	}
	if predicted < len(buf) {
		t.Fatalf("Len() = %d underestimates the %d octets Pack() produced", predicted, len(buf))
	}
	if predicted != len(buf) {
		t.Fatalf("Len() = %d, Pack() produced %d octets: not exact for a message without escapes", predicted, len(buf))
	}

	// and what was packed is the message
	var back Msg
	if err := back.Unpack(buf); err != nil {
		t.Fatalf("Unpack: %v", err)
	}
	if len(back.Answer) != len(m.Answer) || len(back.Extra) != len(m.Extra) {
		t.Fatalf("unpacked %d+%d records, packed %d+%d", len(back.Answer), len(back.Extra), len(m.Answer), len(m.Extra))
	}
	if got := back.Extra[3].Header().Name; got != "fresh.example.net." {
		t.Fatalf("last owner name came back as %q", got)
	}
}
