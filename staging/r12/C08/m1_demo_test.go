package dns

import (
	"errors"
	"net"
	"testing"
)

// Property: for every message that CAN be packed, Len() is at least the number of
// octets Pack() produces, and Pack() never fails for lack of buffer space.
//
// The messages below spell some of their names without the closing dot. On the
// unchanged tree such a message cannot be packed at all (ErrFqdn), so the property
// says nothing about it. If Pack accepts it, Len must still be an upper bound.
func TestSeededC08m1(t *testing.T) {
	check := func(what string, m *Msg) {
		t.Helper()
		predicted := m.Len()
		buf, err := m.Pack()
		if err != nil {
			if errors.Is(err, ErrFqdn) {
				return // not a packable message: nothing to check
			}
			t.Fatalf("%s: Pack failed with %q although the message is accepted (Len()=%d)", what, err, predicted)
		}
		if predicted < len(buf) {
			t.Fatalf("%s: Len() = %d underestimates the %d octets Pack() produced", what, predicted, len(buf))
		}
		// what was packed must at least be a well-formed message
		if err := new(Msg).Unpack(buf); err != nil {
			t.Fatalf("%s: packed message does not unpack: %v", what, err)
		}
	}

	for _, compress := range []bool{false, true} {
		// one relative name: the owner of the answer
		m := new(Msg)
		m.Compress = compress
		m.SetQuestion("www.example.org.", TypeA)
		m.Answer = append(m.Answer, &A{
			Hdr: RR_Header{Name: "www.example.org", Rrtype: TypeA, Class: ClassINET, Ttl: 60},
			A:   net.IPv4(192, 0, 2, 1),
		})
		check("relative owner name", m)

		// two relative names at the end of the message: question and MX target
		m = new(Msg)
		m.Compress = compress
		m.SetQuestion("example.org", TypeMX)
		m.Answer = append(m.Answer, &MX{
			Hdr:        RR_Header{Name: "example.org.", Rrtype: TypeMX, Class: ClassINET, Ttl: 60},
			Preference: 10,
			Mx:         "mail.example.net",
		})
		check("relative question and MX target", m)
	}

	// the same for a single record and a buffer of exactly Len(rr) octets
	rr := &NS{Hdr: RR_Header{Name: "example.org.", Rrtype: TypeNS, Class: ClassINET, Ttl: 60}, Ns: "ns1.example.org"}
	buf := make([]byte, Len(rr)+64)
	off, err := PackRR(rr, buf, 0, nil, false)
	if err != nil {
		if errors.Is(err, ErrFqdn) {
			return
		}
		t.Fatalf("PackRR: %v", err)
	}
	if Len(rr) < off {
		t.Fatalf("Len(rr) = %d underestimates the %d octets PackRR produced", Len(rr), off)
	}
}
