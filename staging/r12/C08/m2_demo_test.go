package dns

import (
	"net"
	"testing"
)

// Property: Len(rr) and Msg.Len() are at least the number of octets Pack produces,
// and Pack never fails for lack of buffer space on a message it accepts.
//
// packDataA writes the four address octets of an A or L32 record for every 16-octet
// net.IP it is given; it takes them from To4(), which is empty for an address that
// is not an IPv4-mapped one (for instance the "IPv4-compatible" ::192.0.2.1 that
// results from copying four octets to the end of a zeroed 16-octet slice). Such a
// record is packable, so its four octets have to be counted.
func TestSeededC08m2(t *testing.T) {
	compat := make(net.IP, net.IPv6len) // ::192.0.2.1, no ::ffff: prefix
	copy(compat[12:], []byte{192, 0, 2, 1})

	rrs := []RR{
		&A{Hdr: RR_Header{Name: "www.example.org.", Rrtype: TypeA, Class: ClassINET, Ttl: 300}, A: compat},
		&L32{Hdr: RR_Header{Name: "www.example.org.", Rrtype: TypeL32, Class: ClassINET, Ttl: 300}, Preference: 10, Locator32: compat},
	}
	for _, rr := range rrs {
		// a single record
		buf := make([]byte, 512)
		off, err := PackRR(rr, buf, 0, nil, false)
		if err != nil {
			t.Fatalf("%T: PackRR: %v", rr, err)
		}
		if l := Len(rr); l < off {
			t.Errorf("%T: Len(rr) = %d underestimates the %d octets PackRR produced", rr, l, off)
		}

		// the record at the end of a message, with and without compression
		for _, compress := range []bool{false, true} {
			m := new(Msg)
			m.Compress = compress
			m.SetQuestion("www.example.org.", rr.Header().Rrtype)
			m.Answer = []RR{rr}
			predicted := m.Len()
			packed, err := m.Pack()
			if err != nil {
				t.Errorf("%T compress=%v: Pack failed on a message it sized itself: %v (Len() = %d)", rr, compress, err, predicted)
				continue
			}
			if predicted < len(packed) {
				t.Errorf("%T compress=%v: Len() = %d underestimates the %d octets Pack() produced", rr, compress, predicted, len(packed))
			}
		}
	}
}
