package dns

import (
	"io"
	"net"
	"testing"
	"time"
)

// TestSeededC14m1: a server that has TSIG keys configured receives a well-formed
// query (default accept policy passes it, it decodes) that is signed with a key
// name the server does not have. Like every accepted and decodable message it has
// to reach the handler exactly once - with TsigStatus() telling the handler that
// the signature was not verified - and it is not reported as invalid.
func TestSeededC14m1(t *testing.T) {
	const secret = "so6ZGir4GPAqINNh9U5c3A=="

	q := new(Msg)
	q.SetQuestion("example.org.", TypeSOA)
	q.Id = 0x4242
	q.SetTsig("other.", HmacSHA256, 300, time.Now().Unix())
	pkt, _, err := TsigGenerate(q, secret, "", false)
	if err != nil {
		t.Fatalf("cannot sign the query: %v", err)
	}

	handled, invalid := 0, 0
	var status error
	srv := &Server{
		TsigSecret: map[string]string{"known.": secret},
		Handler: HandlerFunc(func(w ResponseWriter, r *Msg) {
			handled++
			status = w.TsigStatus()
			if r.Id != 0x4242 || len(r.Question) != 1 || r.Question[0].Name != "example.org." || r.IsTsig() == nil {
				t.Errorf("handler got a request that is not the one sent: %v", r)
			}
		}),
		MsgInvalidFunc: func(m []byte, err error) { invalid++ },
	}
	srv.init()

	c1, c2 := net.Pipe()
	defer c1.Close()
	defer c2.Close()
	go io.Copy(io.Discard, c2) // swallow whatever the server writes back

	// What serveTCPConn sets up for a connection.
	w := &response{tsigProvider: srv.tsigProvider(), tcp: c1}
	w.writer = w

	srv.serveDNS(pkt, w)

	if invalid != 0 {
		t.Errorf("a decodable message was reported as invalid %d time(s)", invalid)
	}
	if handled != 1 {
		t.Fatalf("accepted, decodable message: handler invoked %d time(s), want exactly once", handled)
	}
	if status == nil {
		t.Errorf("handler was told the TSIG of an unknown key verified")
	}
}
