package dns

import "testing"

// seededC14m2Writer records the reply a handler or the multiplexer writes.
type seededC14m2Writer struct {
	ResponseWriter
	reply *Msg
}

func (w *seededC14m2Writer) WriteMsg(m *Msg) error { w.reply = m; return nil }

// TestSeededC14m2: the multiplexer hands a request to the handler registered for the
// LONGEST suffix of the question name; the root pattern is the last resort only. This
// has to hold for the set of patterns registered at the time of the request, also when
// a zone is added after a request for a name below it was already served.
func TestSeededC14m2(t *testing.T) {
	mux := NewServeMux()

	var hit string
	mark := func(name string) Handler {
		return HandlerFunc(func(w ResponseWriter, r *Msg) { hit = name })
	}
	ask := func(name string, qtype uint16) string {
		hit = ""
		req := new(Msg)
		req.SetQuestion(name, qtype)
		w := &seededC14m2Writer{}
		mux.ServeDNS(w, req)
		if hit == "" && w.reply != nil && w.reply.Rcode == RcodeRefused {
			return "REFUSED"
		}
		return hit
	}

	mux.Handle(".", mark("."))
	if got := ask("www.example.org.", TypeA); got != "." {
		t.Fatalf("only the root is registered: www.example.org. A went to %q, want %q", got, ".")
	}

	// A zone is added; the same name is asked for again.
	mux.Handle("example.org.", mark("example.org."))
	if got := ask("www.example.org.", TypeAAAA); got != "example.org." {
		t.Fatalf("after Handle(example.org.): www.example.org. AAAA went to %q, want %q", got, "example.org.")
	}

	// A more specific zone is added below it.
	mux.Handle("www.example.org.", mark("www.example.org."))
	if got := ask("WWW.Example.ORG.", TypeA); got != "www.example.org." {
		t.Fatalf("after Handle(www.example.org.): WWW.Example.ORG. A went to %q, want %q", got, "www.example.org.")
	}

	// DS for the apex of the child goes to the parent, the rest stays with the child.
	if got := ask("www.example.org.", TypeDS); got != "example.org." {
		t.Fatalf("www.example.org. DS went to %q, want the parent %q", got, "example.org.")
	}
	if got := ask("www.example.org.", TypeA); got != "www.example.org." {
		t.Fatalf("www.example.org. A went to %q, want %q", got, "www.example.org.")
	}

	// Removing brings the shorter suffixes back, down to REFUSED.
	mux.HandleRemove("www.example.org.")
	if got := ask("www.example.org.", TypeA); got != "example.org." {
		t.Fatalf("after HandleRemove(www.example.org.): went to %q, want %q", got, "example.org.")
	}
	mux.HandleRemove("example.org.")
	mux.HandleRemove(".")
	if got := ask("www.example.org.", TypeA); got != "REFUSED" {
		t.Fatalf("nothing registered: got %q, want REFUSED", got)
	}
}
