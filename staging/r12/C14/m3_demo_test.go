package dns

import (
	"io"
	"net"
	"testing"
)

// TestSeededC14m3: a query that carries an EDNS0 client-subnet option whose
// address field is shorter than its source prefix length announces (/24, two
// address octets) must either reach the handler exactly once or be reported to
// the invalid-message callback. The server must not panic on it.
func TestSeededC14m3(t *testing.T) {
	pkt := []byte{
		0x12, 0x34, // ID
		0x01, 0x00, // RD
		0x00, 0x01, // QDCOUNT
		0x00, 0x00, // ANCOUNT
		0x00, 0x00, // NSCOUNT
		0x00, 0x01, // ARCOUNT
		// example.org. IN A
		7, 'e', 'x', 'a', 'm', 'p', 'l', 'e', 3, 'o', 'r', 'g', 0,
		0x00, 0x01, 0x00, 0x01,
		// . OPT, udp size 4096, ttl 0, rdlength 10
		0x00, 0x00, 0x29, 0x10, 0x00, 0x00, 0x00, 0x00, 0x00, 0x00, 0x0a,
		// option 8 (client subnet), length 6: family 1, source /24, scope 0, 2 address octets
		0x00, 0x08, 0x00, 0x06, 0x00, 0x01, 24, 0, 192, 0,
	}

	handled, invalid := 0, 0
	srv := &Server{
		Handler: HandlerFunc(func(w ResponseWriter, r *Msg) {
			handled++
			if r.Id != 0x1234 || len(r.Question) != 1 || r.Question[0].Name != "example.org." {
				t.Errorf("handler got a request that is not the one sent: %v", r)
			}
		}),
		MsgInvalidFunc: func(m []byte, err error) { invalid++ },
	}
	srv.init()

	c1, c2 := net.Pipe()
	defer c1.Close()
	defer c2.Close()
	go io.Copy(io.Discard, c2) // swallow a possible FORMERR reply

	w := &response{tcp: c1}
	w.writer = w

	var panicked interface{}
	func() {
		defer func() { panicked = recover() }()
		srv.serveDNS(pkt, w)
	}()

	if panicked != nil {
		t.Fatalf("server panicked on inbound message: %v", panicked)
	}
	if handled+invalid != 1 {
		t.Fatalf("message neither handled once nor reported: handler calls %d, invalid reports %d", handled, invalid)
	}
}
