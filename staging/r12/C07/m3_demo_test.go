package dns

import (
	"errors"
	"strings"
	"testing"
)

// seededC07m3Reader hands out s and then fails with err (not io.EOF).
type seededC07m3Reader struct {
	s   string
	err error
}

func (r *seededC07m3Reader) Read(p []byte) (int, error) {
	if r.s == "" {
		return 0, r.err
	}
	n := copy(p, r.s)
	r.s = r.s[n:]
	return n, nil
}

// The first problem in the input must be reported as an error by NewRR and
// ReadRR, also when it is met after the first RDATA field has been read.
func TestSeededC07m3(t *testing.T) {
	// A $GENERATE whose template has a bad modifier late in the line: the
	// modifier is only looked at when the generated text is read that far.
	for _, in := range []string{
		"$GENERATE 1-2 host$ TXT first ${0,0,z}",
		"$GENERATE 1-2 host$ TXT first ${0,4",
		"$GENERATE 1-2 host$ NSEC next$ A ${2147483647}",
	} {
		rr, err := NewRR(in)
		if err == nil {
			t.Errorf("NewRR(%q): the bad modifier was not reported; got record %v and a nil error", in, rr)
			continue
		}
		if !strings.Contains(err.Error(), "$GENERATE") || !strings.Contains(err.Error(), "at line: 1:") {
			t.Errorf("NewRR(%q): unexpected error %v", in, err)
		}
	}

	// A reader that fails in the middle of the RDATA.
	boom := errors.New("seeded read failure")
	rr, err := ReadRR(&seededC07m3Reader{s: "a.example. 3600 IN TXT \"one\" \"two\" ", err: boom}, "db.example")
	if err == nil {
		t.Errorf("ReadRR: the read failure was not reported; got record %v and a nil error", rr)
	} else if !errors.Is(err, boom) && !strings.Contains(err.Error(), boom.Error()) {
		t.Errorf("ReadRR: unexpected error %v", err)
	}
}
