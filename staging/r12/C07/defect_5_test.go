package dns

import (
	"io"
	"runtime"
	"strings"
	"testing"
)

// defect5Reader hands out the zone text octet by octet and looks at the depth
// of the call stack it is called from.
type defect5Reader struct {
	s        string
	i        int
	maxDepth int
	pcs      []uintptr
}

func (r *defect5Reader) ReadByte() (byte, error) {
	if r.i >= len(r.s) {
		return 0, io.EOF
	}
	if r.s[r.i] == '$' { // once per directive
		if d := runtime.Callers(0, r.pcs); d > r.maxDepth {
			r.maxDepth = d
		}
	}
	c := r.s[r.i]
	r.i++
	return c, nil
}

func (r *defect5Reader) Read(p []byte) (int, error) { panic("not used") }

// After a $GENERATE (or an $INCLUDE) has run dry, subNext calls Next again, which
// calls generate, which calls subNext ...: three frames, 944 octets of stack on
// amd64, for every directive that yields no record, never unwound until the end
// of the zone. The stack use is 60 times the input, and a zone of 1.2 million
// lines "$GENERATE 1-1 " (17 MB) ends the process with the unrecoverable
// "fatal error: stack overflow" (1 GB limit); includes need not be enabled.
func TestSeededDefectC07d5(t *testing.T) {
	const lines = 2000
	r := &defect5Reader{s: strings.Repeat("$GENERATE 1-1 \n", lines), pcs: make([]uintptr, 16*lines)}
	zp := NewZoneParser(r, "example.", "db.example")
	for _, ok := zp.Next(); ok; _, ok = zp.Next() {
	}
	if err := zp.Err(); err != nil {
		t.Fatalf("unexpected error: %v", err)
	}
	// The reader is called from Next -> zlexer.Next -> readByte: a handful of frames
	// on top of the test's own. Allow a generous 100.
	if r.maxDepth > 100 {
		t.Errorf("call stack %d frames deep after %d directives: the depth grows with the number of directives in the zone", r.maxDepth, lines)
	}
}
