package dns

import (
	"strings"
	"testing"
)

// Once a syntax error has occurred, Next must not hand out another record: in
// particular not the record on whose line the error was found.
func TestSeededC07m2(t *testing.T) {
	zones := []string{
		// the type bitmap loop of NSEC skips the token that carries the lexer error
		"$ORIGIN example.\n$TTL 300\nfirst A 192.0.2.1\na NSEC b A )\nb A 192.0.2.2\n",
		// NSEC3PARAM takes the token that carries the lexer error for its salt
		"$ORIGIN example.\n$TTL 300\nfirst A 192.0.2.1\na NSEC3PARAM 1 0 5 )\nb A 192.0.2.2\n",
		// CSYNC, HIP: the same
		"$ORIGIN example.\n$TTL 300\nfirst A 192.0.2.1\na CSYNC 66 3 A NS )\nb A 192.0.2.2\n",
	}
	for _, zone := range zones {
		zp := NewZoneParser(strings.NewReader(zone), "", "db.example")
		var got []RR
		for rr, ok := zp.Next(); ok; rr, ok = zp.Next() {
			got = append(got, rr)
		}
		err := zp.Err()
		if err == nil || !strings.Contains(err.Error(), "extra closing brace") {
			t.Errorf("%q: expected the extra closing brace to be reported, got %v", zone, err)
		}
		if pe, ok := err.(*ParseError); !ok || !strings.HasPrefix(pe.Error(), "db.example: ") || !strings.Contains(pe.Error(), "at line: 4:") {
			t.Errorf("%q: error without file or line: %v", zone, err)
		}
		// only the record of line 3 precedes the error
		if len(got) != 1 || got[0].Header().Name != "first.example." {
			t.Errorf("%q: records handed out: %v; want only first.example.", zone, got)
		}
	}

	// NewRR: an error means no record
	rr, err := NewRR("a.example. 3600 IN NSEC3PARAM 1 0 5 )")
	if err == nil {
		t.Errorf("NewRR: expected an error, got %v", rr)
	}
	if rr != nil {
		t.Errorf("NewRR: got a record together with the error %v: %v", err, rr)
	}
}
