package dns

import (
	"os"
	"path/filepath"
	"strings"
	"testing"
)

// A $GENERATE nested inside a $GENERATE has to be refused. The refusal is a
// flag (generateDisallowed) on the sub parser of the $GENERATE; the sub parser
// of an $INCLUDE that this sub parser starts does not get the flag, so a
// $GENERATE whose template is an $INCLUDE of a file with another $GENERATE is
// accepted and multiplies: n1*n2*... records, 65536^8 from eight small files
// within the include depth limit.
func TestSeededDefectC07d2(t *testing.T) {
	dir := t.TempDir()
	inner := filepath.Join(dir, "inner.zone")
	if err := os.WriteFile(inner, []byte("$GENERATE 1-300 in$ A 192.0.2.1\n"), 0o644); err != nil {
		t.Fatal(err)
	}

	zone := "$TTL 300\n$GENERATE 1-300 \\$INCLUDE " + inner + "\n"
	zp := NewZoneParser(strings.NewReader(zone), "example.", "db.example")
	zp.SetIncludeAllowed(true)

	n := 0
	for _, ok := zp.Next(); ok; _, ok = zp.Next() {
		n++
		if n > 65536 {
			break
		}
	}
	if n > 300 {
		t.Errorf("a $GENERATE 1-300 whose template includes a file with a $GENERATE 1-300 gave %d records (more than 65536: 300*300)", n)
	}
	if err := zp.Err(); err == nil || !strings.Contains(err.Error(), "nested $GENERATE") {
		t.Errorf("expected the nested $GENERATE to be refused, got error %v after %d records", err, n)
	}
}
