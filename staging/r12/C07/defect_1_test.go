package dns

import (
	"io/fs"
	"os"
	"path/filepath"
	"strings"
	"testing"
	"testing/fstest"
)

type defect1FS struct {
	fs.FS
	opened []string
}

func (f *defect1FS) Open(name string) (fs.File, error) {
	f.opened = append(f.opened, name)
	return f.FS.Open(name)
}

// With an include FS configured, every $INCLUDE has to go through it. An
// $INCLUDE that is written in the template of a $GENERATE is opened with
// os.Open instead: the sub parser of $GENERATE does not inherit the FS.
func TestSeededDefectC07d1(t *testing.T) {
	dir := t.TempDir()
	outside := filepath.Join(dir, "outside.zone")
	if err := os.WriteFile(outside, []byte("leaked.example. 60 IN A 192.0.2.66\n"), 0o644); err != nil {
		t.Fatal(err)
	}

	fsys := &defect1FS{FS: fstest.MapFS{
		"zones/inc.zone": &fstest.MapFile{Data: []byte("inside.example. 60 IN A 192.0.2.1\n")},
	}}

	zone := "$TTL 300\n$GENERATE 1-1 \\$INCLUDE " + outside + "\n"
	zp := NewZoneParser(strings.NewReader(zone), "example.", "zones/db.example")
	zp.SetIncludeAllowed(true)
	zp.SetIncludeFS(fsys)

	var got []string
	for rr, ok := zp.Next(); ok; rr, ok = zp.Next() {
		got = append(got, rr.String())
	}
	if len(got) != 0 {
		t.Errorf("records read from a file outside the include FS: %v", got)
	}
	if len(fsys.opened) == 0 {
		t.Errorf("the include FS was never asked to open anything (error: %v)", zp.Err())
	}
	if zp.Err() == nil {
		t.Errorf("expected an error: %s does not exist in the include FS", outside)
	}
}
