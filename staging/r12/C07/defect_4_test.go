package dns

import (
	"io/fs"
	"strings"
	"testing"
	"testing/fstest"
)

type defect4FS struct {
	fs.FS
	opened []string
}

func (f *defect4FS) Open(name string) (fs.File, error) {
	f.opened = append(f.opened, name)
	return f.FS.Open(name)
}

// The tokens behind the file name (and the optional origin) of an $INCLUDE line
// are not looked at before the file is opened: a syntax error on the directive
// line (a stray ")" that the lexer flags, or garbage behind the origin) is only
// reported after the file has been opened and all its records have been
// handed out.
func TestSeededDefectC07d4(t *testing.T) {
	for _, line := range []string{
		"$INCLUDE inc.zone )",
		"$INCLUDE inc.zone sub.example. )",
		"$INCLUDE inc.zone sub.example. garbage",
	} {
		fsys := &defect4FS{FS: fstest.MapFS{
			"inc.zone": &fstest.MapFile{Data: []byte("www 60 IN A 192.0.2.1\nftp 60 IN A 192.0.2.2\n")},
		}}
		zp := NewZoneParser(strings.NewReader("$ORIGIN example.\n"+line+"\nlast 60 IN A 192.0.2.3\n"), "", "db.example")
		zp.SetIncludeAllowed(true)
		zp.SetIncludeFS(fsys)

		n := 0
		for _, ok := zp.Next(); ok; _, ok = zp.Next() {
			n++
		}
		if zp.Err() == nil {
			t.Errorf("%q: no error reported", line)
		}
		if n != 0 || len(fsys.opened) != 0 {
			t.Errorf("%q: the line is in error (%v), yet %d files were opened and %d records handed out first", line, zp.Err(), len(fsys.opened), n)
		}
	}
}
