package dns

import (
	"strings"
	"testing"
)

// A type bitmap (NSEC, NSEC3, CSYNC) that names a type the library does not
// know by a mnemonic of fewer than four characters is a syntax error: reading
// it must give an error, never a panic.
func TestSeededC07m1(t *testing.T) {
	inputs := []string{
		"a.example. 3600 IN NSEC b.example. A XY",
		"a.example. 3600 IN NSEC b.example. A RRSIG Q",
		"a.example. 3600 IN CSYNC 66 3 A NS ZZZ",
		"p2209hipbpnm681knjnu0m1febshlv4e.nl. 3600 IN NSEC3 1 1 5 30923C44C6CBBB8F P90DG1KE8QEAN0B01613LHQDG0SOJ0TA NS -",
		"a.example. 3600 IN NXT b.example. A 7",
	}
	for _, in := range inputs {
		func() {
			defer func() {
				if r := recover(); r != nil {
					t.Errorf("NewRR(%q) panicked: %v", in, r)
				}
			}()
			rr, err := NewRR(in)
			if err == nil {
				t.Errorf("NewRR(%q): expected an error, got %v", in, rr)
				return
			}
			if !strings.Contains(err.Error(), "TypeBitMap") {
				t.Errorf("NewRR(%q): expected a TypeBitMap error, got %v", in, err)
			}
		}()
	}

	// the same in the middle of a zone, through the ZoneParser
	zone := "$ORIGIN example.\n$TTL 300\na NSEC b A XY\nb A 192.0.2.1\n"
	func() {
		defer func() {
			if r := recover(); r != nil {
				t.Errorf("ZoneParser.Next panicked: %v", r)
			}
		}()
		zp := NewZoneParser(strings.NewReader(zone), "", "db.example")
		n := 0
		for _, ok := zp.Next(); ok; _, ok = zp.Next() {
			n++
		}
		if zp.Err() == nil || n != 0 {
			t.Errorf("zone: expected an error and no records, got %d records and error %v", n, zp.Err())
		}
	}()
}
