package dns

import (
	"errors"
	"strings"
	"testing"
)

type defect3Reader struct {
	s   string
	err error
}

func (r *defect3Reader) Read(p []byte) (int, error) {
	if r.s == "" {
		return 0, r.err
	}
	n := copy(p, r.s)
	r.s = r.s[n:]
	return n, nil
}

// When reading fails in the middle of the RDATA (a failing io.Reader, or the
// reader of a $GENERATE that meets a bad modifier), the lexer hands out an
// end-of-input token; RDATA parsers that read "to the end of the line" take
// that for the end of the record, and Next returns a record made from the
// part of the line that was read. The error only shows on the next call.
func TestSeededDefectC07d3(t *testing.T) {
	boom := errors.New("seeded read failure")

	// 1. a reader that fails after `"one" ` of a TXT record with three strings
	zp := NewZoneParser(&defect3Reader{s: "ok.example. 60 IN A 192.0.2.1\ntxt.example. 60 IN TXT \"one\" ", err: boom}, "", "db.example")
	var got []string
	for rr, ok := zp.Next(); ok; rr, ok = zp.Next() {
		got = append(got, rr.String())
	}
	if zp.Err() == nil {
		t.Errorf("read failure not reported")
	}
	if len(got) != 1 {
		t.Errorf("expected only ok.example. before the read failure, got %q", got)
	}

	// 2. $GENERATE: the bad modifier sits behind the first TXT string
	zp = NewZoneParser(strings.NewReader("$TTL 60\n$GENERATE 1-3 host$ TXT first ${0,0,z}\n"), "example.", "db.example")
	got = nil
	for rr, ok := zp.Next(); ok; rr, ok = zp.Next() {
		got = append(got, rr.String())
	}
	if err := zp.Err(); err == nil || !strings.Contains(err.Error(), "bad base in $GENERATE") {
		t.Errorf("expected bad base in $GENERATE, got %v", err)
	}
	if len(got) != 0 {
		t.Errorf("records handed out from a $GENERATE line that is in error: %q", got)
	}

	// 3. NewRR: a record and an error at the same time
	rr, err := NewRR("$GENERATE 1-3 host$ TXT first ${0,0,z}")
	if err != nil && rr != nil {
		t.Errorf("NewRR returned both a record (%v) and an error (%v)", rr, err)
	}
}
