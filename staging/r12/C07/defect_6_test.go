package dns

import (
	"strings"
	"testing"
)

// RDATA parsers with a fixed number of fields call c.Next() for "the blank"
// between two fields without looking at what they get. A newline outside
// parentheses in that place is taken for the blank, and the next line is read
// as the rest of the record: a line that is cut off in the middle of its RDATA
// is not reported, and it swallows the following line.
func TestSeededDefectC07d6(t *testing.T) {
	for _, zone := range []string{
		"a.example. 60 IN MX 10\nmx.example.\n",
		"a.example. 60 IN SOA ns.example. mbox.example. 1 2 3\n4 5\n",
		"a.example. 60 IN SRV 1 2\n3 target.example.\n",
	} {
		zp := NewZoneParser(strings.NewReader(zone), "", "db.example")
		var got []string
		for rr, ok := zp.Next(); ok; rr, ok = zp.Next() {
			got = append(got, rr.String())
		}
		if zp.Err() == nil {
			t.Errorf("%q: the first line ends in the middle of the RDATA, but no error is reported; records: %q", zone, got)
		}
	}
}
