package dns

import (
	"strings"
	"testing"
)

// Syntax errors carry file, line and column. For an error in a record made by
// $GENERATE the file is that of the zone, but line and column are those of the
// generated text: line k for the k-th step, whatever line of the zone file the
// $GENERATE stands on.
func TestSeededDefectC07d7(t *testing.T) {
	zone := "$ORIGIN example.\n$TTL 60\nwww A 192.0.2.1\n\n\n$GENERATE 1-4 host$ A 192.0.2.x$\n"
	zp := NewZoneParser(strings.NewReader(zone), "", "db.example")
	for _, ok := zp.Next(); ok; _, ok = zp.Next() {
	}
	err := zp.Err()
	if err == nil {
		t.Fatal("expected an error")
	}
	if !strings.Contains(err.Error(), "at line: 6:") {
		t.Errorf("the $GENERATE is on line 6 of db.example, the error says: %v", err)
	}

	// the third step is the first that is in error: reported as line 3
	zone = "$ORIGIN example.\n$TTL 60\nwww A 192.0.2.1\n\n\n$GENERATE 254-257 host$ A 192.0.2.$\n"
	zp = NewZoneParser(strings.NewReader(zone), "", "db.example")
	for _, ok := zp.Next(); ok; _, ok = zp.Next() {
	}
	err = zp.Err()
	if err == nil {
		t.Fatal("expected an error")
	}
	if !strings.Contains(err.Error(), "at line: 6:") {
		t.Errorf("the $GENERATE is on line 6 of db.example, the error says: %v", err)
	}
}
