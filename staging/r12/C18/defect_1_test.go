package dns

import (
	"crypto"
	"testing"
	"time"
)

// UNCHANGED TREE: a message signed with SIG(0) does not verify against the
// matching KEY when the key's owner name is written with an escape that
// UnpackDomainName would write differently (here \032 for a blank, which
// comes back from the wire as "\ "). SIG.Verify compares the presentation
// form of the signer name taken from the wire with k.Header().Name octet by
// octet (equal() only folds case), so the same domain name in two spellings
// "doesn't match".
func TestSeededC18defect1(t *testing.T) {
	gen := new(KEY)
	gen.Hdr = RR_Header{Name: "tmp.", Rrtype: TypeKEY, Class: ClassINET}
	gen.Algorithm = ED25519
	priv, err := gen.Generate(256)
	if err != nil {
		t.Fatal(err)
	}

	// The KEY as it is read from a zone file.
	rr, err := NewRR(`my\032key.example.org. 3600 IN KEY 512 3 15 ` + gen.PublicKey)
	if err != nil {
		t.Fatal(err)
	}
	key := rr.(*KEY)

	m := new(Msg)
	m.SetQuestion("example.org.", TypeSOA)

	now := uint32(time.Now().Unix())
	sig := new(SIG)
	sig.Algorithm = key.Algorithm
	sig.KeyTag = key.KeyTag()
	sig.SignerName = key.Hdr.Name
	sig.Inception = now - 300
	sig.Expiration = now + 300
	signed, err := sig.Sign(priv.(crypto.Signer), m)
	if err != nil {
		t.Fatalf("sign: %v", err)
	}
	if err := sig.Verify(key, signed); err != nil {
		t.Errorf("signed with signer name %q, verified against the KEY of that name: %v", sig.SignerName, err)
	}
}
