package dns

import (
	"crypto"
	"testing"
	"time"
)

// A message can be signed, and then verifies, under every algorithm the
// library supports for SIG(0): every algorithm KEY.Generate makes keys for
// and SIG.Verify has a branch for, the RSA/SHA-1 alias number 7
// (RSASHA1-NSEC3-SHA1) included.
func TestSeededC18m3(t *testing.T) {
	m := new(Msg)
	m.SetUpdate("example.org.")
	a, err := NewRR("host.example.org. 300 IN A 192.0.2.1")
	if err != nil {
		t.Fatal(err)
	}
	m.Insert([]RR{a})

	algs := []struct {
		alg  uint8
		bits int
	}{
		{RSASHA1, 1024},
		{RSASHA1NSEC3SHA1, 1024},
		{RSASHA256, 1024},
		{RSASHA512, 1024},
		{ECDSAP256SHA256, 256},
		{ECDSAP384SHA384, 384},
		{ED25519, 256},
	}
	for _, a := range algs {
		name := AlgorithmToString[a.alg]
		key := new(KEY)
		key.Hdr = RR_Header{Name: "signer.example.", Rrtype: TypeKEY, Class: ClassINET}
		key.Algorithm = a.alg
		priv, err := key.Generate(a.bits)
		if err != nil {
			t.Errorf("%s: generate: %v", name, err)
			continue
		}
		now := uint32(time.Now().Unix())
		sig := new(SIG)
		sig.Algorithm = a.alg
		sig.KeyTag = key.KeyTag()
		sig.SignerName = key.Hdr.Name
		sig.Inception = now - 300
		sig.Expiration = now + 300
		signed, err := sig.Sign(priv.(crypto.Signer), m)
		if err != nil {
			t.Errorf("%s: sign: %v", name, err)
			continue
		}
		if err := sig.Verify(key, signed); err != nil {
			t.Errorf("%s: verify: %v", name, err)
			continue
		}
		signed[len(signed)-1] ^= 1
		if err := sig.Verify(key, signed); err == nil {
			t.Errorf("%s: verify succeeded on an altered signature", name)
		}
	}
}
