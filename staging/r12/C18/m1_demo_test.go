package dns

import (
	"crypto"
	"testing"
	"time"
)

// Every octet of the SIG RDATA is covered by the signature (RFC 2931 4.1.8.1:
// the data signed is the RDATA of the SIG, less the signature, followed by the
// message). An alteration of the signer name as it stands in the RDATA, be it
// only the case of a letter, has to make the verification fail.
func TestSeededC18m1(t *testing.T) {
	key := new(KEY)
	key.Hdr = RR_Header{Name: "signer.example.", Rrtype: TypeKEY, Class: ClassINET}
	key.Algorithm = ED25519
	priv, err := key.Generate(256)
	if err != nil {
		t.Fatal(err)
	}

	m := new(Msg)
	m.SetUpdate("example.org.")
	a, err := NewRR("host.example.org. 300 IN A 192.0.2.1")
	if err != nil {
		t.Fatal(err)
	}
	m.Insert([]RR{a})
	packed, err := m.Pack()
	if err != nil {
		t.Fatal(err)
	}

	now := uint32(time.Now().Unix())
	sig := new(SIG)
	sig.Algorithm = key.Algorithm
	sig.KeyTag = key.KeyTag()
	sig.SignerName = key.Hdr.Name
	sig.Inception = now - 300
	sig.Expiration = now + 300
	signed, err := sig.Sign(priv.(crypto.Signer), m)
	if err != nil {
		t.Fatalf("sign: %v", err)
	}
	if err := sig.Verify(key, signed); err != nil {
		t.Fatalf("verify of the untouched message: %v", err)
	}

	// SIG RR: root owner (1), type, class, TTL, RDLENGTH (10), then the RDATA:
	// type covered (2), algorithm (1), labels (1), original TTL (4),
	// expiration (4), inception (4), key tag (2), signer name.
	name := len(packed) + 1 + 10 + 18
	if name+7 > len(signed) || signed[name] != 6 || string(signed[name+1:name+7]) != "signer" {
		t.Fatalf("signer name not found at offset %d of % x", name, signed)
	}
	for i := name + 1; i < name+7; i++ {
		tampered := append([]byte(nil), signed...)
		tampered[i] ^= 0x20 // 's' -> 'S' and so on
		if err := sig.Verify(key, tampered); err == nil {
			t.Errorf("octet %d of the SIG RDATA altered (%q -> %q), message still verifies",
				i-(len(packed)+11), signed[i], tampered[i])
		}
	}
}
