package dns

import (
	"bytes"
	"crypto"
	"testing"
	"time"
)

// Any message can be signed, whatever its content and compression setting:
// a response whose records share one long owner name shrinks to less than
// half its size when compressed. It has to come out of Sign as the packed
// (compressed) message followed by the SIG, and it has to verify.
func TestSeededC18m2(t *testing.T) {
	key := new(KEY)
	key.Hdr = RR_Header{Name: "signer.example.", Rrtype: TypeKEY, Class: ClassINET}
	key.Algorithm = ED25519
	priv, err := key.Generate(256)
	if err != nil {
		t.Fatal(err)
	}

	const owner = "a-rather-long-host-name.in-a-rather-long-subdomain.of-some-zone.example.org."
	m := new(Msg)
	m.SetQuestion(owner, TypeA)
	m.Response = true
	for i := 0; i < 12; i++ {
		m.Answer = append(m.Answer, &A{
			Hdr: RR_Header{Name: owner, Rrtype: TypeA, Class: ClassINET, Ttl: 300},
			A:   []byte{192, 0, 2, byte(i + 1)},
		})
	}

	for _, compress := range []bool{false, true} {
		m.Compress = compress
		packed, err := m.Pack()
		if err != nil {
			t.Fatal(err)
		}

		now := uint32(time.Now().Unix())
		sig := new(SIG)
		sig.Algorithm = key.Algorithm
		sig.KeyTag = key.KeyTag()
		sig.SignerName = key.Hdr.Name
		sig.Inception = now - 300
		sig.Expiration = now + 300
		signed, err := sig.Sign(priv.(crypto.Signer), m)
		if err != nil {
			t.Errorf("compress=%v: message of %d octets (%d uncompressed) cannot be signed: %v",
				compress, len(packed), msgLenWithCompressionMap(m, nil), err)
			continue
		}
		if len(signed) < len(packed) || !bytes.Equal(signed[:10], packed[:10]) || !bytes.Equal(signed[12:len(packed)], packed[12:]) {
			t.Errorf("compress=%v: signed octets do not start with the packed message", compress)
		}
		if err := sig.Verify(key, signed); err != nil {
			t.Errorf("compress=%v: verify: %v", compress, err)
		}
	}
}
