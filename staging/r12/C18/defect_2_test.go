package dns

import (
	"crypto/ed25519"
	"encoding/hex"
	"testing"
	"time"
)

// UNCHANGED TREE: a key whose key tag (RFC 4034 appendix B) happens to be 0
// cannot be used for SIG(0): SIG.Sign and SIG.Verify take KeyTag == 0 for
// "not set" and return ErrKey. One key in 65536 has this tag; the seed below
// gives an Ed25519 key with flags 0, protocol 0 whose tag is 0.
func TestSeededC18defect2(t *testing.T) {
	seed, _ := hex.DecodeString("7fb4f3dd9dfa3c6cb1b087cca494597c6d6b3b495084c2128e3e77ac77a1584b")
	priv := ed25519.NewKeyFromSeed(seed)

	key := new(KEY)
	key.Hdr = RR_Header{Name: "signer.example.", Rrtype: TypeKEY, Class: ClassINET}
	key.Algorithm = ED25519
	key.PublicKey = toBase64(priv.Public().(ed25519.PublicKey))
	if tag := key.KeyTag(); tag != 0 {
		t.Fatalf("precondition: key tag is %d, not 0", tag)
	}

	m := new(Msg)
	m.SetQuestion("example.org.", TypeSOA)

	now := uint32(time.Now().Unix())
	sig := new(SIG)
	sig.Algorithm = key.Algorithm
	sig.KeyTag = key.KeyTag()
	sig.SignerName = key.Hdr.Name
	sig.Inception = now - 300
	sig.Expiration = now + 300
	signed, err := sig.Sign(priv, m)
	if err != nil {
		t.Fatalf("a key with key tag 0 cannot sign: %v", err)
	}
	if err := sig.Verify(key, signed); err != nil {
		t.Errorf("verify: %v", err)
	}
}
