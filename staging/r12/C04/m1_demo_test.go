package dns

import (
	"strings"
	"testing"
)

// A zone cut below every label of a 127-label name (think of a deep reverse tree), and the
// longest name used twice. With compression every owner name is one label and a pointer to the
// previous owner name; the second use of the longest name is a pointer to all of it. That is a
// chain of 127 pointers, none of them to a pointer, all backwards: a valid RFC 1035 message that
// the library wrote itself. It has to read it back, to exactly the message packed without
// compression.
func TestSeededC04m1(t *testing.T) {
	m := new(Msg)
	m.Compress = true
	m.SetQuestion("a.", TypeNS)

	name := ""
	for i := 0; i < 127; i++ {
		name = string(rune('a'+i%26)) + "." + name
		m.Answer = append(m.Answer, &NS{Hdr: RR_Header{Name: name, Rrtype: TypeNS, Class: ClassINET, Ttl: 60}, Ns: "a."})
	}
	if n := strings.Count(name, "."); n != 127 || len(name)+1 != maxDomainNameWireOctets {
		t.Fatalf("bad test name: %d labels, %d octets", n, len(name)+1)
	}
	// the deepest name once more, as the target of a PTR this time
	m.Extra = append(m.Extra, &PTR{Hdr: RR_Header{Name: "a.", Rrtype: TypePTR, Class: ClassINET, Ttl: 60}, Ptr: name})

	packed, err := m.Pack()
	if err != nil {
		t.Fatalf("Pack (compressed) failed: %v", err)
	}
	m.Compress = false
	plain, err := m.Pack()
	if err != nil {
		t.Fatalf("Pack (uncompressed) failed: %v", err)
	}
	if len(packed) > len(plain) {
		t.Fatalf("compressed form is longer: %d > %d", len(packed), len(plain))
	}

	var fromPlain, fromPacked Msg
	if err := fromPlain.Unpack(plain); err != nil {
		t.Fatalf("Unpack of the uncompressed form failed: %v", err)
	}
	if err := fromPacked.Unpack(packed); err != nil {
		t.Fatalf("Unpack of the compressed form failed: %v", err)
	}
	if got, want := fromPacked.Extra[0].(*PTR).Ptr, fromPlain.Extra[0].(*PTR).Ptr; got != want {
		t.Fatalf("PTR target differs:\n got  %s\n want %s", got, want)
	}
	for i := range fromPlain.Answer {
		if got, want := fromPacked.Answer[i].Header().Name, fromPlain.Answer[i].Header().Name; got != want {
			t.Fatalf("owner name %d differs:\n got  %s\n want %s", i, got, want)
		}
	}
}
