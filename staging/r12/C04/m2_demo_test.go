package dns

import (
	"bytes"
	"encoding/binary"
	"testing"
)

// RFC 9460 section 2.2: the TargetName of SVCB and HTTPS is an uncompressed name, in AliasMode
// (priority 0) as much as in ServiceMode; RFC 3597 section 4 says the same for every type that is
// not in RFC 1035. So the RDATA of these records has to be the same octets whether the message is
// packed with or without compression. The RDATA is cut out of the message by a small reader of
// its own, which knows nothing about record types.
func TestSeededC04m2(t *testing.T) {
	rdatas := func(msg []byte) [][]byte {
		skipName := func(off int) int {
			for {
				if off >= len(msg) {
					t.Fatalf("name runs off the message at %d", off)
				}
				c := int(msg[off])
				switch {
				case c == 0:
					return off + 1
				case c&0xC0 == 0xC0:
					return off + 2
				case c&0xC0 != 0:
					t.Fatalf("reserved label type %#x at %d", c, off)
				}
				off += 1 + c
			}
		}
		off := 12
		for i := 0; i < int(binary.BigEndian.Uint16(msg[4:])); i++ {
			off = skipName(off) + 4
		}
		n := int(binary.BigEndian.Uint16(msg[6:])) + int(binary.BigEndian.Uint16(msg[8:])) + int(binary.BigEndian.Uint16(msg[10:]))
		var out [][]byte
		for i := 0; i < n; i++ {
			off = skipName(off) + 8
			rdlen := int(binary.BigEndian.Uint16(msg[off:]))
			off += 2
			out = append(out, msg[off:off+rdlen])
			off += rdlen
		}
		if off != len(msg) {
			t.Fatalf("%d octets left over", len(msg)-off)
		}
		return out
	}

	m := new(Msg)
	m.SetQuestion("example.com.", TypeHTTPS)
	m.Response = true
	hdr := func(name string, typ uint16) RR_Header {
		return RR_Header{Name: name, Rrtype: typ, Class: ClassINET, Ttl: 300}
	}
	m.Answer = []RR{
		// ServiceMode
		&HTTPS{SVCB{Hdr: hdr("example.com.", TypeHTTPS), Priority: 1, Target: "svc.example.com.",
			Value: []SVCBKeyValue{&SVCBAlpn{Alpn: []string{"h2"}}}}},
		// AliasMode
		&HTTPS{SVCB{Hdr: hdr("example.com.", TypeHTTPS), Priority: 0, Target: "svc.example.com."}},
		&SVCB{Hdr: hdr("_dns.example.com.", TypeSVCB), Priority: 0, Target: "pool.example.com."},
	}

	m.Compress = false
	plain, err := m.Pack()
	if err != nil {
		t.Fatalf("Pack (uncompressed) failed: %v", err)
	}
	m.Compress = true
	packed, err := m.Pack()
	if err != nil {
		t.Fatalf("Pack (compressed) failed: %v", err)
	}

	want, got := rdatas(plain), rdatas(packed)
	if len(want) != len(m.Answer) || len(got) != len(m.Answer) {
		t.Fatalf("found %d and %d records, want %d", len(want), len(got), len(m.Answer))
	}
	for i := range want {
		if !bytes.Equal(got[i], want[i]) {
			t.Errorf("record %d (%s): RDATA changes with compression, so a name in it was compressed:\n got  %x\n want %x",
				i, m.Answer[i], got[i], want[i])
		}
	}
}
