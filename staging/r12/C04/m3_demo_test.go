package dns

import (
	"bytes"
	"encoding/binary"
	"testing"
)

// A resolver that randomises the case of its query name (0x20) gets the reply from zone data that
// is spelled in lower case. SetReply copies the question, the records keep the spelling of the
// zone. Packed with compression, the reply has to decode to the very same names, octet for octet,
// as packed without: a pointer may only stand in for a name that is spelled the same.
// The owner names are read by a small wire reader of its own.
func TestSeededC04m3(t *testing.T) {
	owners := func(msg []byte) [][]byte {
		readName := func(off int) (name []byte, next int) {
			next = -1
			for hops := 0; hops < 128; {
				if off >= len(msg) {
					t.Fatalf("name runs off the message at %d", off)
				}
				c := int(msg[off])
				switch c & 0xC0 {
				case 0x00:
					if next < 0 && c == 0 {
						next = off + 1
					}
					if c == 0 {
						return name, next
					}
					name = append(name, msg[off:off+1+c]...)
					off += 1 + c
				case 0xC0:
					if next < 0 {
						next = off + 2
					}
					target := (c&0x3F)<<8 | int(msg[off+1])
					if target >= off {
						t.Fatalf("pointer at %d to %d does not go backwards", off, target)
					}
					off = target
					hops++
				default:
					t.Fatalf("reserved label type %#x at %d", c, off)
				}
			}
			t.Fatalf("pointer loop")
			return nil, 0
		}
		off := 12
		for i := 0; i < int(binary.BigEndian.Uint16(msg[4:])); i++ {
			_, off = readName(off)
			off += 4
		}
		n := int(binary.BigEndian.Uint16(msg[6:])) + int(binary.BigEndian.Uint16(msg[8:])) + int(binary.BigEndian.Uint16(msg[10:]))
		var out [][]byte
		for i := 0; i < n; i++ {
			var name []byte
			name, off = readName(off)
			out = append(out, name)
			off += 8
			off += 2 + int(binary.BigEndian.Uint16(msg[off:]))
		}
		if off != len(msg) {
			t.Fatalf("%d octets left over", len(msg)-off)
		}
		return out
	}

	query := new(Msg)
	query.SetQuestion("wWw.ExAmPlE.oRg.", TypeA)

	reply := new(Msg)
	reply.SetReply(query)
	reply.Answer = []RR{
		&CNAME{Hdr: RR_Header{Name: "www.example.org.", Rrtype: TypeCNAME, Class: ClassINET, Ttl: 300}, Target: "host.example.org."},
		&A{Hdr: RR_Header{Name: "host.example.org.", Rrtype: TypeA, Class: ClassINET, Ttl: 300}, A: []byte{192, 0, 2, 1}},
	}
	reply.Ns = []RR{
		&NS{Hdr: RR_Header{Name: "example.org.", Rrtype: TypeNS, Class: ClassINET, Ttl: 300}, Ns: "ns.example.org."},
	}

	reply.Compress = false
	plain, err := reply.Pack()
	if err != nil {
		t.Fatalf("Pack (uncompressed) failed: %v", err)
	}
	reply.Compress = true
	packed, err := reply.Pack()
	if err != nil {
		t.Fatalf("Pack (compressed) failed: %v", err)
	}
	if len(packed) > len(plain) {
		t.Fatalf("compressed form is longer: %d > %d", len(packed), len(plain))
	}

	want, got := owners(plain), owners(packed)
	if len(want) != 3 || len(got) != 3 {
		t.Fatalf("found %d and %d records, want 3", len(want), len(got))
	}
	for i := range want {
		if !bytes.Equal(got[i], want[i]) {
			t.Errorf("owner name of record %d changes with compression:\n got  %q\n want %q", i, got[i], want[i])
		}
	}
}
