package dns

import (
	"net"
	"sync"
	"testing"
	"time"
)

type seededHoldReader struct {
	Reader
	once   *sync.Once
	woke   chan struct{}
	resume chan struct{}
}

func (r seededHoldReader) ReadUDP(conn *net.UDPConn, timeout time.Duration) ([]byte, *SessionUDP, error) {
	m, s, err := r.Reader.ReadUDP(conn, timeout)
	if err != nil {
		// hold the serve loop between the failed read and its isStarted() check (first error only)
		r.once.Do(func() {
			close(r.woke)
			<-r.resume
		})
	}
	return m, s, err
}

// UNCHANGED tree: a restart that gets in between Shutdown's unlock and the old serve loop's
// isStarted() check makes the old loop carry on (it sees the started flag of the NEW generation),
// so the Shutdown never returns.
func TestSeededC13defect1(t *testing.T) {
	woke, resume := make(chan struct{}), make(chan struct{})
	started := make(chan struct{}, 2)
	srv := &Server{Net: "udp", Addr: "127.0.0.1:0", ReadTimeout: time.Hour, Handler: HandlerFunc(HelloServer)}
	srv.NotifyStartedFunc = func() { started <- struct{}{} }
	var once sync.Once
	srv.DecorateReader = func(r Reader) Reader {
		return seededHoldReader{Reader: r, once: &once, woke: woke, resume: resume}
	}

	fin1 := make(chan error, 1)
	go func() { fin1 <- srv.ListenAndServe() }()
	<-started

	shut := make(chan error, 1)
	go func() { shut <- srv.Shutdown() }()
	<-woke // Shutdown has cleared started and unblocked the read; the old loop is held

	fin2 := make(chan error, 1)
	go func() { fin2 <- srv.ListenAndServe() }() // restart (allowed: started is false)
	<-started
	close(resume)

	select {
	case err := <-shut:
		if err != nil {
			t.Errorf("Shutdown: %v", err)
		}
	case <-time.After(3 * time.Second):
		t.Errorf("Shutdown does not return: the serve loop of the old generation keeps running after the restart")
	}
	select {
	case err := <-fin1:
		if err != nil {
			t.Errorf("first serve call returned %v, want nil", err)
		}
	case <-time.After(time.Second):
		t.Errorf("first serve call did not return")
	}

	srv.Shutdown()
	select {
	case <-fin2:
	case <-time.After(3 * time.Second):
	}
}
