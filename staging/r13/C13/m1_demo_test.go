package dns

import (
	"context"
	"net"
	"sync"
	"testing"
	"time"
)

// While the owner's NotifyStartedFunc is still running, the server counts as started:
// a second start must be refused at once and a ShutdownContext must honour its context.
func TestSeededC13m1(t *testing.T) {
	l, err := net.Listen("tcp", "127.0.0.1:0")
	if err != nil {
		t.Fatal(err)
	}
	entered := make(chan struct{})
	release := make(chan struct{})
	var once sync.Once
	srv := &Server{Listener: l, Handler: HandlerFunc(HelloServer)}
	srv.NotifyStartedFunc = func() {
		once.Do(func() { close(entered) })
		<-release // e.g. the owner registers the server somewhere, drops privileges, ...
	}
	fin := make(chan error, 1)
	go func() { fin <- srv.ActivateAndServe() }()
	<-entered

	// 1. second start: refused, not blocked
	second := make(chan error, 1)
	go func() { second <- srv.ActivateAndServe() }()
	select {
	case err := <-second:
		if err == nil {
			t.Errorf("second start of a started server returned nil")
		}
	case <-time.After(2 * time.Second):
		t.Errorf("second start of a started server blocks instead of returning an error")
		close(release)
		<-second
		srv.Shutdown()
		<-fin
		return
	}

	// 2. ShutdownContext: returns when its context expires
	shut := make(chan error, 1)
	go func() {
		ctx, cancel := context.WithTimeout(context.Background(), 100*time.Millisecond)
		defer cancel()
		shut <- srv.ShutdownContext(ctx)
	}()
	select {
	case err := <-shut:
		if err != context.DeadlineExceeded {
			t.Errorf("ShutdownContext: got %v, want the context's error", err)
		}
	case <-time.After(2 * time.Second):
		t.Errorf("ShutdownContext does not return although its context expired")
		close(release)
		<-shut
		<-fin
		return
	}

	close(release)
	select {
	case err := <-fin:
		if err != nil {
			t.Errorf("serve call returned %v, want nil", err)
		}
	case <-time.After(5 * time.Second):
		t.Errorf("serve call did not return")
	}
}
