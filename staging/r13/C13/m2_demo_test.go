package dns

import (
	"net"
	"testing"
	"time"
)

// A start that fails (here: the address is taken) leaves the server not started;
// shutting it down must be refused with an error, not block.
func TestSeededC13m2(t *testing.T) {
	busy, err := net.Listen("tcp", "127.0.0.1:0")
	if err != nil {
		t.Fatal(err)
	}
	defer busy.Close()

	srv := &Server{Net: "tcp", Addr: busy.Addr().String(), Handler: HandlerFunc(HelloServer)}
	if err := srv.ListenAndServe(); err == nil {
		t.Fatal("ListenAndServe on an address in use returned nil")
	}

	done := make(chan error, 1)
	go func() { done <- srv.Shutdown() }()
	select {
	case err := <-done:
		if err == nil {
			t.Errorf("Shutdown of a server that is not started returned nil")
		}
	case <-time.After(3 * time.Second):
		t.Errorf("Shutdown of a server whose start failed blocks instead of returning an error")
	}
}
