package dns

import (
	"context"
	"net"
	"testing"
	"time"
)

// UNCHANGED tree: serveTCP fetches "its" drain channel only AFTER NotifyStartedFunc returned. If a
// ShutdownContext expires and the server is started again while the callback of the first start is
// still running, both serve loops take the channel of the second generation and both close it:
// panic "close of closed channel" (the test binary dies).
func TestSeededC13defect2(t *testing.T) {
	l, err := net.Listen("tcp", "127.0.0.1:0")
	if err != nil {
		t.Fatal(err)
	}
	entered := make(chan struct{}, 2)
	release := make(chan struct{})
	srv := &Server{Listener: l, Handler: HandlerFunc(HelloServer)}
	srv.NotifyStartedFunc = func() {
		entered <- struct{}{}
		<-release
	}
	fin := make(chan error, 2)
	go func() { fin <- srv.ActivateAndServe() }()
	<-entered

	ctx, cancel := context.WithTimeout(context.Background(), 50*time.Millisecond)
	defer cancel()
	if err := srv.ShutdownContext(ctx); err != context.DeadlineExceeded {
		t.Fatalf("ShutdownContext: %v", err)
	}

	go func() { fin <- srv.ActivateAndServe() }() // restart, started is false
	<-entered
	close(release)
	time.Sleep(100 * time.Millisecond)

	srv.Shutdown() // both loops end and close the same channel
	for i := 0; i < 2; i++ {
		select {
		case <-fin:
		case <-time.After(3 * time.Second):
			t.Fatalf("serve call %d did not return", i)
		}
	}
}
