package dns

import (
	"net"
	"testing"
)

// Packing a record (or a message holding it) is a read-only operation: the order of the
// SVCB/HTTPS parameters in the caller's record must be what it was before.
func TestSeededC16m2(t *testing.T) {
	alpn := &SVCBAlpn{Alpn: []string{"h2", "h3"}}
	hint := &SVCBIPv4Hint{Hint: []net.IP{net.IPv4(192, 0, 2, 1).To4()}}
	port := &SVCBPort{Port: 8443}
	rr := &HTTPS{SVCB{
		Hdr:      RR_Header{Name: "example.org.", Rrtype: TypeHTTPS, Class: ClassINET, Ttl: 300},
		Priority: 1,
		Target:   ".",
		// as a user (or the zone parser) may well leave them: not in key order
		Value: []SVCBKeyValue{hint, port, alpn},
	}}
	before := rr.String()
	view := rr.Value // a second view of the same parameters, e.g. kept by the caller

	m := new(Msg)
	m.SetQuestion("example.org.", TypeHTTPS)
	m.Answer = []RR{rr}
	if _, err := m.Pack(); err != nil {
		t.Fatalf("Pack: %v", err)
	}

	if view[0] != SVCBKeyValue(hint) || view[1] != SVCBKeyValue(port) || view[2] != SVCBKeyValue(alpn) {
		t.Errorf("Pack reordered the record's parameters: now %v, %v, %v",
			view[0].Key(), view[1].Key(), view[2].Key())
	}
	if after := rr.String(); after != before {
		t.Errorf("Pack changed the record:\nbefore %s\nafter  %s", before, after)
	}
}
