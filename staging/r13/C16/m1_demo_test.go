package dns

import "testing"

// A copy of a message shares no mutable memory with the original: writing an element of the
// algorithm list of an RFC 6975 option (DAU, DHU, N3U) in the copy must not show in the original.
func TestSeededC16m1(t *testing.T) {
	dau := &EDNS0_DAU{Code: EDNS0DAU, AlgCode: []uint8{RSASHA256, ECDSAP256SHA256}}
	dhu := &EDNS0_DHU{Code: EDNS0DHU, AlgCode: []uint8{SHA1, SHA256}}
	n3u := &EDNS0_N3U{Code: EDNS0N3U, AlgCode: []uint8{SHA1}}
	opt := &OPT{Hdr: RR_Header{Name: ".", Rrtype: TypeOPT}}
	opt.SetUDPSize(1232)
	opt.Option = []EDNS0{dau, dhu, n3u}

	m := new(Msg)
	m.SetQuestion("example.org.", TypeDNSKEY)
	m.Extra = []RR{opt}

	c := m.Copy()
	copt := c.IsEdns0()
	if copt == nil || len(copt.Option) != 3 {
		t.Fatalf("copy lost the OPT record or its options: %v", c)
	}
	// the resolver strips what it does not support from its own copy of the query
	copt.Option[0].(*EDNS0_DAU).AlgCode[0] = ED25519
	copt.Option[1].(*EDNS0_DHU).AlgCode[1] = SHA384
	copt.Option[2].(*EDNS0_N3U).AlgCode[0] = 0

	if dau.AlgCode[0] != RSASHA256 {
		t.Errorf("write to the copy's DAU list shows in the original: %v", dau.AlgCode)
	}
	if dhu.AlgCode[1] != SHA256 {
		t.Errorf("write to the copy's DHU list shows in the original: %v", dhu.AlgCode)
	}
	if n3u.AlgCode[0] != SHA1 {
		t.Errorf("write to the copy's N3U list shows in the original: %v", n3u.AlgCode)
	}

	// the same through Copy of the record alone
	r := Copy(opt).(*OPT)
	r.Option[0].(*EDNS0_DAU).AlgCode[1] = ED448
	if dau.AlgCode[1] != ECDSAP256SHA256 {
		t.Errorf("write to a copied OPT record's DAU list shows in the original: %v", dau.AlgCode)
	}
}
