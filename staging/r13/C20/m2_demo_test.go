package dns

import "testing"

// Embedded domain names are compared without regard to letter case, also when
// they sit in a list: the rendezvous servers of a HIP record (RFC 8005).
func TestSeededC20m2(t *testing.T) {
	fromWire := func(s string) RR {
		t.Helper()
		rr, err := NewRR(s)
		if err != nil {
			t.Fatal(err)
		}
		buf := make([]byte, 512)
		off, err := PackRR(rr, buf, 0, nil, false)
		if err != nil {
			t.Fatal(err)
		}
		w, _, err := UnpackRR(buf[:off], 0)
		if err != nil {
			t.Fatal(err)
		}
		return w
	}
	const pre = "www.example.com. 3600 IN HIP 2 200100107B1A74DF365639CC39F1D578 AwEAAbdxyhNuSutc5EMzxTs9LBPCIkOFH8cIvM4p9+LrV4e19WzK00+CI6zBCQTdtWsuxKbWIy87UOoJTwkUs7lBu+Upr1gsNrut79ryra+bSRGQb1slImA8YVJyuIDsj7kwzG7jnERNqnWxZ48AWkskmdHaVDP4BcelrTI3rMXdXF5D "
	a := fromWire(pre + "rvs1.example.com. rvs2.example.com.")
	b := fromWire(pre + "rvs1.example.com. RVS2.Example.COM.")
	c := fromWire(pre + "rvs1.example.com. rvs3.example.com.")
	if !IsDuplicate(a, b) || !IsDuplicate(b, a) {
		t.Errorf("HIP records that differ only in the letter case of a rendezvous server are not duplicates:\n%v\n%v", a, b)
	}
	if IsDuplicate(a, c) {
		t.Errorf("HIP records with different rendezvous servers are duplicates:\n%v\n%v", a, c)
	}
	if !IsDuplicate(b, b.copy()) {
		t.Errorf("record is not a duplicate of its copy: %v", b)
	}
}
