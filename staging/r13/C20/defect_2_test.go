package dns

import "testing"

func TestSeededC20defect2(t *testing.T) {
	// owner "a.", type NSEC, class IN, ttl 0, rdlength, next "b.", type bitmap
	mk := func(bitmap ...byte) RR {
		rdata := append([]byte{1, 'b', 0}, bitmap...)
		msg := []byte{1, 'a', 0, 0, 47, 0, 1, 0, 0, 0, 0, 0, byte(len(rdata))}
		msg = append(msg, rdata...)
		rr, _, err := UnpackRR(msg, 0)
		if err != nil {
			t.Fatal(err)
		}
		return rr
	}
	a := mk(0, 1, 0x40)       // window 0, one octet, bit 1 (A)
	b := mk(0, 2, 0x40, 0x00) // window 0, two octets, the second one zero
	if IsDuplicate(a, b) {
		t.Errorf("records from the wire with different RDATA octets are duplicates:\n%v\n%v", a, b)
	}
}
