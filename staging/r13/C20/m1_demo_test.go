package dns

import (
	"bytes"
	"testing"
)

// Two records from the wire are duplicates exactly when type, class, owner and
// RDATA octets are equal.  The RDATA of SOA (MINIMUM) and of RRSIG/SIG (original
// TTL) carries a 32-bit field that is part of the record's identity.
func TestSeededC20m1(t *testing.T) {
	fromWire := func(s string) (RR, []byte) {
		t.Helper()
		rr, err := NewRR(s)
		if err != nil {
			t.Fatal(err)
		}
		buf := make([]byte, 512)
		off, err := PackRR(rr, buf, 0, nil, false)
		if err != nil {
			t.Fatal(err)
		}
		w, _, err := UnpackRR(buf[:off], 0)
		if err != nil {
			t.Fatal(err)
		}
		return w, buf[:off]
	}
	pairs := [][2]string{
		{"example.org. 3600 IN SOA ns.example.org. host.example.org. 1 7200 900 1209600 300",
			"example.org. 3600 IN SOA ns.example.org. host.example.org. 1 7200 900 1209600 86400"},
		{"example.org. 3600 IN RRSIG A 8 2 3600 20300101000000 20200101000000 12345 example.org. AAAA",
			"example.org. 3600 IN RRSIG A 8 2 300 20300101000000 20200101000000 12345 example.org. AAAA"},
	}
	for _, p := range pairs {
		a, wa := fromWire(p[0])
		b, wb := fromWire(p[1])
		if bytes.Equal(wa, wb) {
			t.Fatalf("test is wrong: same wire form for %q and %q", p[0], p[1])
		}
		if IsDuplicate(a, b) || IsDuplicate(b, a) {
			t.Errorf("records with different RDATA octets are reported as duplicates:\n%v\n%v", a, b)
		}
		if !IsDuplicate(a, a.copy()) {
			t.Errorf("record is not a duplicate of its copy: %v", a)
		}
	}
}
