package dns

import "testing"

func TestSeededC20defect1(t *testing.T) {
	o := &OPT{Hdr: RR_Header{Name: ".", Rrtype: TypeOPT, Class: 1232}}
	o.Option = append(o.Option, &EDNS0_NSID{Code: EDNS0NSID, Nsid: "aabb"})
	if !IsDuplicate(o, o) {
		t.Errorf("IsDuplicate is not reflexive for OPT: %v", o)
	}
	if !IsDuplicate(o, Copy(o)) {
		t.Errorf("OPT record is not a duplicate of its copy")
	}
}
