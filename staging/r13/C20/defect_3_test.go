package dns

import "testing"

func TestSeededC20defect3(t *testing.T) {
	a := &A{Hdr: RR_Header{Name: "", Rrtype: TypeA, Class: ClassINET, Ttl: 300}, A: []byte{10, 0, 0, 1}}
	b := &A{Hdr: RR_Header{Name: "", Rrtype: TypeA, Class: ClassINET, Ttl: 100}, A: []byte{10, 0, 0, 1}}
	if !IsDuplicate(a, b) {
		t.Fatal("not duplicates")
	}
	out := Dedup([]RR{a, b}, nil)
	if len(out) != 1 || out[0].Header().Ttl != 100 {
		t.Errorf("Dedup kept %d records: %v", len(out), out)
	}
}
