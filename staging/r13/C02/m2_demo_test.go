package dns

import "testing"

// An NSEC record whose only type-bitmap block claims two octets of bitmap while a
// single one is left in the RDATA (and in the message). Unpack has to reject it with
// an error; it must not panic or read past the record.
func TestSeededC02m2(t *testing.T) {
	msg := []byte{
		0x12, 0x34, 0x84, 0x00, 0, 0, 0, 1, 0, 0, 0, 0, // header, ANCOUNT=1
		0,     // owner .
		0, 47, // NSEC
		0, 1, // IN
		0, 0, 0, 60, // TTL
		0, 4, // RDLENGTH
		0,    // next domain .
		0, 2, // window 0, bitmap length 2
		0x40, // ... but only one octet of bitmap
	}
	// make sure nothing lies behind the message in memory that a re-slice could reach
	exact := make([]byte, len(msg))
	copy(exact, msg)

	var err error
	func() {
		defer func() {
			if r := recover(); r != nil {
				t.Fatalf("Unpack panicked: %v", r)
			}
		}()
		m := new(Msg)
		err = m.Unpack(exact)
		if err == nil {
			t.Fatalf("NSEC block overflowing its RDATA was accepted: %v", m.Answer)
		}
	}()

	// The same record followed by another one: the block must not be filled from
	// the octets of the next record.
	two := append(append([]byte{}, msg...), 0, 0, 1, 0, 1, 0, 0, 0, 60, 0, 4, 0xff, 2, 3, 4)
	two[7] = 2
	m := new(Msg)
	if err := m.Unpack(two); err == nil {
		t.Fatalf("NSEC block reaching into the next record was accepted: %v", m.Answer)
	}
}
