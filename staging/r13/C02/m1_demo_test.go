package dns

import "testing"

// A query answer whose OPT record carries a ZONEVERSION option of type SOA-SERIAL
// with a two-octet version. Unpack accepts it (the option only needs LABELCOUNT and
// TYPE); printing, measuring, copying and re-packing what was accepted must not panic.
func TestSeededC02m1(t *testing.T) {
	msg := []byte{
		0x12, 0x34, 0x84, 0x00, 0, 0, 0, 0, 0, 0, 0, 1, // header, ARCOUNT=1
		0,     // owner .
		0, 41, // OPT
		0x04, 0xd0, // udp size 1232
		0, 0, 0, 0, // extended rcode, version, flags
		0, 8, // RDLENGTH
		0, 19, // option code ZONEVERSION
		0, 4, // option length
		2,    // LABELCOUNT
		0,    // TYPE SOA-SERIAL
		0x07, 0xe9, // a truncated serial: two octets instead of four
	}
	m := new(Msg)
	if err := m.Unpack(msg); err != nil {
		t.Fatalf("Unpack: %v", err)
	}
	opt := m.IsEdns0()
	if opt == nil || len(opt.Option) != 1 {
		t.Fatalf("no ZONEVERSION option unpacked: %v", m.Extra)
	}
	defer func() {
		if r := recover(); r != nil {
			t.Fatalf("panic while handling an accepted message: %v", r)
		}
	}()
	_ = m.String()
	_ = m.Len()
	c := m.Copy()
	_ = c.String()
	if _, err := c.Pack(); err != nil {
		t.Fatalf("Pack: %v", err)
	}
}
