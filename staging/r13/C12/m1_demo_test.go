package dns

import (
	"strings"
	"testing"
)

// A reply that is exactly as large as the EDNS0 buffer size the query advertised
// must reach the client as the handler wrote it.
func TestSeededC12m1(t *testing.T) {
	const size = 1232

	build := func(req *Msg, pad int) *Msg {
		m := new(Msg)
		m.SetReply(req)
		m.Answer = []RR{&TXT{
			Hdr: RR_Header{Name: req.Question[0].Name, Rrtype: TypeTXT, Class: ClassINET, Ttl: 0},
			Txt: []string{strings.Repeat("a", 255), strings.Repeat("b", 255), strings.Repeat("c", 255), strings.Repeat("d", 255), strings.Repeat("e", pad)},
		}}
		return m
	}

	for _, want := range []int{size - 1, size} {
		want := want
		var wrote int
		HandleFunc("exact.example.", func(w ResponseWriter, req *Msg) {
			m := build(req, 0)
			m = build(req, want-m.Len())
			buf, err := m.Pack()
			if err != nil {
				t.Errorf("pack: %v", err)
				return
			}
			wrote = len(buf)
			w.Write(buf)
		})

		s, addr, _, err := RunLocalUDPServer("127.0.0.1:0")
		if err != nil {
			t.Fatalf("unable to run test server: %v", err)
		}

		q := new(Msg)
		q.SetQuestion("exact.example.", TypeTXT)
		q.SetEdns0(size, false)

		c := new(Client)
		r, _, err := c.Exchange(q, addr)
		s.Shutdown()
		HandleRemove("exact.example.")
		if wrote != want {
			t.Fatalf("handler wrote %d octets, wanted %d", wrote, want)
		}
		if err != nil {
			t.Fatalf("reply of %d octets with a %d octet buffer advertised: %v", want, size, err)
		}
		if r.Id != q.Id || len(r.Answer) != 1 || r.Len() != want {
			t.Fatalf("reply of %d octets arrived mangled: %v", want, r)
		}
	}
}
