package dns

import (
	"encoding/binary"
	"io"
	"net"
	"sync"
	"sync/atomic"
	"testing"
	"time"
)

// c12ScratchReader is a decorated Reader that reads every frame of its TCP connection
// into a scratch buffer of its own: the server decodes a request before it reads the
// next one from the same connection, so one buffer per connection is enough.
type c12ScratchReader struct {
	Reader
	buf  []byte
	done func() // called when a frame has been read, before it is handed to the server
}

func (r *c12ScratchReader) ReadTCP(conn net.Conn, timeout time.Duration) ([]byte, error) {
	conn.SetReadDeadline(time.Now().Add(timeout))
	var l uint16
	if err := binary.Read(conn, binary.BigEndian, &l); err != nil {
		return nil, err
	}
	m := r.buf[:l]
	if _, err := io.ReadFull(conn, m); err != nil {
		return nil, err
	}
	r.done()
	return m, nil
}

// Two clients query a TCP server at the same time, each over its own connection. Each
// handler invocation must see the request of its client and each client must get the
// reply to its own query, also when the server's Reader is decorated.
func TestSeededC12m2(t *testing.T) {
	// Force the schedule: the first frame that has been read is handed to the server
	// only after the second one has been read, too.
	var (
		frames     int32
		secondRead = make(chan struct{})
	)
	done := func() {
		switch atomic.AddInt32(&frames, 1) {
		case 1:
			select {
			case <-secondRead:
			case <-time.After(time.Second):
			}
		case 2:
			close(secondRead)
		}
	}

	HandleFunc("example.", func(w ResponseWriter, req *Msg) {
		m := new(Msg)
		m.SetReply(req)
		m.Answer = []RR{&TXT{
			Hdr: RR_Header{Name: req.Question[0].Name, Rrtype: TypeTXT, Class: ClassINET},
			Txt: []string{req.Question[0].Name},
		}}
		w.WriteMsg(m)
	})
	defer HandleRemove("example.")

	s, addr, _, err := RunLocalTCPServer("127.0.0.1:0", func(srv *Server) {
		srv.DecorateReader = func(r Reader) Reader {
			return &c12ScratchReader{Reader: r, buf: make([]byte, MaxMsgSize), done: done}
		}
	})
	if err != nil {
		t.Fatalf("unable to run test server: %v", err)
	}
	defer s.Shutdown()

	names := []string{"one.example.", "two.example."}
	errs := make([]string, len(names))
	var wg sync.WaitGroup
	for i, name := range names {
		wg.Add(1)
		go func(i int, name string) {
			defer wg.Done()
			q := new(Msg)
			q.SetQuestion(name, TypeTXT)
			q.Id = uint16(1000 + i)
			c := &Client{Net: "tcp", Timeout: 5 * time.Second}
			r, _, err := c.Exchange(q, addr)
			if err != nil {
				errs[i] = "exchange for " + name + ": " + err.Error()
				return
			}
			if r.Id != q.Id || len(r.Question) != 1 || r.Question[0].Name != name ||
				len(r.Answer) != 1 || r.Answer[0].(*TXT).Txt[0] != name {
				errs[i] = "client asking for " + name + " got the reply " + r.String()
			}
		}(i, name)
	}
	wg.Wait()
	for _, e := range errs {
		if e != "" {
			t.Error(e)
		}
	}
}
