package dns

import "testing"

// A relative name whose last label ends in an escaped dot: labels "a" and `b\.`.
// Stepping back from the right must visit the label starts 2 and 0, exactly the
// offsets Split reports, and must overshoot only for n > 2.
func TestSeededC19m1(t *testing.T) {
	for _, s := range []string{`a.b\.`, `www.miek.nl\.`, `a.b\\\.`} {
		idx := Split(s)
		cnt := len(idx)
		for n := 1; n <= cnt+1; n++ {
			off, start := PrevLabel(s, n)
			if n > cnt {
				if !start {
					t.Errorf("PrevLabel(%q, %d) = %d, %t: want overshoot", s, n, off, start)
				}
				continue
			}
			if want := idx[cnt-n]; off != want || start {
				t.Errorf("PrevLabel(%q, %d) = %d, %t: want %d, false", s, n, off, start, want)
			}
		}
	}
}
