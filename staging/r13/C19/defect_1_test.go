package dns

import "testing"

// The root name has no labels (CountLabel(".") == 0, Split(".") == nil), so stepping
// one label back from the right overshoots the start; PrevLabel reports (0, false),
// i.e. a label start at offset 0, as it does for a one-label name such as "nl.".
func TestSeededC19defect1(t *testing.T) {
	if n := CountLabel("."); n != 0 {
		t.Fatalf("CountLabel(\".\") = %d", n)
	}
	if off, start := PrevLabel(".", 1); !start {
		t.Errorf("PrevLabel(\".\", 1) = %d, %t: the root has no labels, want overshoot (start == true)", off, start)
	}
}
