package dnsutil

import "testing"

// package dnsutil.
// A relative name is relative whatever its own labels are: under the origin
// "example.com." the relative name "ns.example.com" is "ns.example.com.example.com.",
// and TrimDomainName must give the relative name back.
func TestSeededC19m2(t *testing.T) {
	for _, c := range []struct{ rel, origin, want string }{
		{"a.f", "f.", "a.f.f."},
		{"a.f", "f", "a.f.f"},
		{"f", "f.", "f.f."},
		{"ns.Example.COM", "example.com.", "ns.Example.COM.example.com."},
		{`x\.y.z`, "y.z.", `x\.y.z.y.z.`},
		{"a.b", "f.", "a.b.f."},
	} {
		got := AddOrigin(c.rel, c.origin)
		if got != c.want {
			t.Errorf("AddOrigin(%q, %q) = %q, want %q", c.rel, c.origin, got, c.want)
		}
		if back := TrimDomainName(got, c.origin); back != c.rel {
			t.Errorf("TrimDomainName(AddOrigin(%q, %q) = %q, %q) = %q, want %q", c.rel, c.origin, got, c.origin, back, c.rel)
		}
	}
}
