package dns

import (
	"net"
	"testing"
)

// The server hands a receive buffer back to its pool before it calls the handler, so the
// request the handler gets must not refer to that buffer: the next datagram overwrites it.
func TestSeededC14m2(t *testing.T) {
	q := new(Msg)
	q.SetQuestion("example.org.", TypeHTTPS)
	hint := net.ParseIP("2001:db8::53")
	q.Extra = []RR{&HTTPS{SVCB{
		Hdr:      RR_Header{Name: "example.org.", Rrtype: TypeHTTPS, Class: ClassINET, Ttl: 60},
		Priority: 1,
		Target:   ".",
		Value:    []SVCBKeyValue{&SVCBIPv6Hint{Hint: []net.IP{hint}}},
	}}}
	wire, err := q.Pack()
	if err != nil {
		t.Fatalf("pack: %v", err)
	}

	pc, err := net.ListenPacket("udp", "127.0.0.1:0")
	if err != nil {
		t.Fatalf("listen: %v", err)
	}
	defer pc.Close()

	var buf []byte // the receive buffer of the datagram
	calls := 0
	srv := &Server{}
	srv.Handler = HandlerFunc(func(w ResponseWriter, r *Msg) {
		calls++
		// What the next ReadFrom into the recycled buffer does.
		for i := range buf {
			buf[i] = 0xAA
		}
		if len(r.Question) != 1 || r.Question[0].Name != "example.org." {
			t.Errorf("question changed under the handler: %v", r.Question)
		}
		if len(r.Extra) != 1 {
			t.Fatalf("want 1 additional record, got %d", len(r.Extra))
		}
		h, ok := r.Extra[0].(*HTTPS)
		if !ok || len(h.Value) != 1 {
			t.Fatalf("unexpected additional record %v", r.Extra[0])
		}
		v, ok := h.Value[0].(*SVCBIPv6Hint)
		if !ok || len(v.Hint) != 1 {
			t.Fatalf("unexpected SvcParam %v", h.Value[0])
		}
		if !v.Hint[0].Equal(hint) {
			t.Errorf("ipv6hint of the request changed to %s once the receive buffer was reused, want %s", v.Hint[0], hint)
		}
	})
	srv.init()

	w := &response{udp: pc, pcSession: pc.LocalAddr()}
	w.writer = w

	buf = srv.getUDPBuffer()
	if len(wire) > len(buf) {
		t.Fatalf("query of %d octets does not fit the %d octet buffer", len(wire), len(buf))
	}
	n := copy(buf, wire)
	srv.serveDNS(buf[:n], w)
	if calls != 1 {
		t.Fatalf("handler called %d times, want 1", calls)
	}
}
