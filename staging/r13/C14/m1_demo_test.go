package dns

import (
	"net"
	"testing"
)

type seededC14m1Writer struct{ reply *Msg }

func (w *seededC14m1Writer) LocalAddr() net.Addr         { return &net.UDPAddr{IP: net.IPv4(127, 0, 0, 1), Port: 53} }
func (w *seededC14m1Writer) RemoteAddr() net.Addr        { return &net.UDPAddr{IP: net.IPv4(127, 0, 0, 1), Port: 5353} }
func (w *seededC14m1Writer) WriteMsg(m *Msg) error       { w.reply = m; return nil }
func (w *seededC14m1Writer) Write(b []byte) (int, error) { return len(b), nil }
func (w *seededC14m1Writer) Close() error                { return nil }
func (w *seededC14m1Writer) TsigStatus() error           { return nil }
func (w *seededC14m1Writer) TsigTimersOnly(bool)         {}
func (w *seededC14m1Writer) Hijack()                     {}

// A question name whose leftmost label contains a '.' octet (wire: 3 'a' '.' 'b') lives
// below example.org., not below b.example.org.: the dot is not a label boundary.
func TestSeededC14m1(t *testing.T) {
	// the query as it comes off the wire
	wire := []byte{
		0x12, 0x34, 0x01, 0x00, 0, 1, 0, 0, 0, 0, 0, 0,
		3, 'a', '.', 'b', 7, 'e', 'x', 'a', 'm', 'p', 'l', 'e', 3, 'o', 'r', 'g', 0,
		0, 1, 0, 1,
	}
	req := new(Msg)
	if err := req.Unpack(wire); err != nil {
		t.Fatalf("unpack: %v", err)
	}
	if got := req.Question[0].Name; got != `a\.b.example.org.` {
		t.Fatalf("unexpected question name %q", got)
	}
	if n := CountLabel(req.Question[0].Name); n != 3 {
		t.Fatalf("question name has %d labels, want 3", n)
	}

	var called string
	mux := NewServeMux()
	mux.HandleFunc("example.org.", func(w ResponseWriter, r *Msg) { called += "example.org." })
	mux.HandleFunc("b.example.org.", func(w ResponseWriter, r *Msg) { called += "b.example.org." })

	w := new(seededC14m1Writer)
	mux.ServeDNS(w, req)
	if called != "example.org." {
		t.Fatalf("query for %s dispatched to %q, want the handler of example.org.", req.Question[0].Name, called)
	}

	// with only the sibling zone registered nothing matches: REFUSED
	called = ""
	mux.HandleRemove("example.org.")
	w = new(seededC14m1Writer)
	mux.ServeDNS(w, req)
	if called != "" || w.reply == nil || w.reply.Rcode != RcodeRefused {
		t.Fatalf("query for %s: handler %q called, reply %v; want REFUSED", req.Question[0].Name, called, w.reply)
	}
}
