package dns

import (
	"fmt"
	"testing"
)

// Unchanged tree: NSEC3.len over-counts every NSEC3 record by 14 octets (it adds
// the 32 base32 characters of NextDomain instead of the 20 hash octets, plus two
// octets for length fields that the leading 6 already covers). A negative reply
// with NSEC3 records that packs into `size` octets is therefore cut down by
// Truncate(size) although it already fits.
func TestSeededC09defect1(t *testing.T) {
	build := func() *Msg {
		m := new(Msg)
		m.SetQuestion("nx.example.org.", TypeA)
		m.Response = true
		m.Rcode = RcodeNameError
		m.Ns = append(m.Ns, testRR("example.org. 300 IN SOA ns.example.org. host.example.org. 1 2 3 4 5"))
		for i := 0; i < 12; i++ {
			m.Ns = append(m.Ns, testRR(fmt.Sprintf("%02dp9mhaveqvm6t7vbl5lop2u3t2rp3to.example.org. 300 IN NSEC3 1 0 5 AABBCCDD 2T7B4G4VSA5SMI47K61MV5BV1A22BOJR A RRSIG", i)))
		}
		return m
	}

	m := build()
	m.Compress = true
	buf, err := m.Pack()
	if err != nil {
		t.Fatal(err)
	}
	size := len(buf)
	if size <= MinMsgSize {
		t.Fatalf("set-up: reply of %d octets is below the floor", size)
	}

	m = build()
	m.Truncate(size)
	if len(m.Ns) != 13 || m.Truncated {
		buf2, _ := m.Pack()
		t.Errorf("the reply packs into %d octets, yet Truncate(%d) kept %d of 13 authority records (TC=%v, now %d octets)",
			size, size, len(m.Ns), m.Truncated, len(buf2))
	}
}
