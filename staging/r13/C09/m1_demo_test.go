package dns

import (
	"fmt"
	"testing"
)

// An MX reply with address records for the exchangers in the additional
// section, three A records per exchanger. For every size at which Truncate has
// to cut inside the additional section, the first record it dropped must be one
// that would not have fitted: putting it back must push the packed message
// over the size.
func TestSeededC09m1(t *testing.T) {
	build := func() *Msg {
		m := new(Msg)
		m.SetQuestion("example.org.", TypeMX)
		m.Response = true
		for i := 0; i < 8; i++ {
			m.Answer = append(m.Answer, testRR(fmt.Sprintf("example.org. 300 IN MX %d mx%d.example.org.", 10*i, i)))
		}
		for i := 0; i < 8; i++ {
			for j := 0; j < 3; j++ {
				m.Extra = append(m.Extra, testRR(fmt.Sprintf("mx%d.example.org. 300 IN A 192.0.2.%d", i, 10*i+j)))
			}
		}
		return m
	}

	orig := build()
	orig.Compress = true
	full, err := orig.Pack()
	if err != nil {
		t.Fatal(err)
	}

	cuts := 0
	for size := MinMsgSize; size < len(full); size++ {
		// MinMsgSize is the floor of Truncate, make the reply large enough for the sweep to matter.
		m := build()
		m.Truncate(size)
		buf, err := m.Pack()
		if err != nil {
			t.Fatal(err)
		}
		if len(buf) > size {
			t.Fatalf("size %d: packed length %d", size, len(buf))
		}
		if len(m.Answer) != len(orig.Answer) || len(m.Extra) == len(orig.Extra) {
			continue
		}
		cuts++
		if !m.Truncated {
			t.Fatalf("size %d: records dropped, TC not set", size)
		}

		// Put the first dropped record back.
		m.Extra = append(m.Extra, orig.Extra[len(m.Extra)])
		buf, err = m.Pack()
		if err != nil {
			t.Fatal(err)
		}
		if len(buf) <= size {
			t.Fatalf("size %d: Truncate kept %d additional records, but record %d (%s) would have fitted as well: packed length %d",
				size, len(m.Extra)-1, len(m.Extra)-1, orig.Extra[len(m.Extra)-1], len(buf))
		}
	}
	if cuts == 0 {
		t.Fatalf("set-up: no size cut inside the additional section (full length %d)", len(full))
	}
}
