package dns

import (
	"fmt"
	"testing"
)

// The standard DNAME answer: the DNAME record, the synthesised CNAME, and the
// records found at the CNAME target, which lies below the DNAME target. For
// every size the truncated reply has to pack into at most that size.
func TestSeededC09m2(t *testing.T) {
	build := func() *Msg {
		m := new(Msg)
		m.SetQuestion("www.old-name.example.", TypeA)
		m.Response = true
		m.Answer = append(m.Answer,
			testRR("old-name.example. 300 IN DNAME a-rather-long-new-name.example.net."),
			testRR("www.old-name.example. 300 IN CNAME www.a-rather-long-new-name.example.net."),
		)
		for i := 0; i < 60; i++ {
			m.Answer = append(m.Answer, testRR(fmt.Sprintf("www.a-rather-long-new-name.example.net. 300 IN A 192.0.2.%d", i)))
		}
		return m
	}

	orig := build()
	orig.Compress = true
	full, err := orig.Pack()
	if err != nil {
		t.Fatal(err)
	}
	if len(full) <= MinMsgSize+16 {
		t.Fatalf("set-up: reply of %d octets is too small", len(full))
	}

	for size := MinMsgSize; size <= len(full)+16; size++ {
		m := build()
		m.Truncate(size)
		buf, err := m.Pack()
		if err != nil {
			t.Fatal(err)
		}
		if len(buf) > size {
			t.Fatalf("Truncate(%d) kept %d of %d answers (TC=%v), the reply packs into %d octets",
				size, len(m.Answer), len(orig.Answer), m.Truncated, len(buf))
		}
		if dropped := len(m.Answer) < len(orig.Answer); dropped != m.Truncated {
			t.Fatalf("Truncate(%d): dropped=%v, TC=%v", size, dropped, m.Truncated)
		}
	}
}
